import Mutagen.Proofs.Forward
/-!
# C33 — forwarded connections relay both directions exactly

Property theorems only. Helper lemmas, the invariants and the
specification-level definitions live in `Mutagen.Proofs.Forward`:
`sent d es` (all bytes the source of direction `d` produces in the script
`es`), `sentUntilEof d es` (those it produces before its first EOF),
`hasEof d es`, `faultFree es`, `openCount`.

`es.foldl Conn.step {}` is the connection state after the script `es`;
`Conn.run es` additionally cancels the context at the end (as the harness
does). Direction `false` copies second → first, `true` copies first → second.
-/
namespace Mutagen.Properties.C33
open Mutagen.Model.Forward Mutagen.Proofs.Forward

/-! ## One forwarded connection -/

/-- Whatever happens (failures, cancellation, any interleaving), the destination
of a direction only ever receives a prefix of what the source produced, in order. -/
theorem relay_prefix (es : List Event) (d : Bool) :
    ((es.foldl Conn.step {}).dir d).delivered <+: sent d es := by
  have h := Inv.run es
  cases d
  · exact h.d0.isPrefix
  · exact h.d1.isPrefix

/-- **Bytes, then half-close.** A destination is half-closed at most once, and
if it was, the source had half-closed and the destination had received exactly
the bytes the source produced before its EOF. -/
theorem relay_exact_until_half_close (es : List Event) (d : Bool) :
    ((es.foldl Conn.step {}).dir d).closeWrites ≤ 1 ∧
    (((es.foldl Conn.step {}).dir d).closeWrites = 1 →
      hasEof d es = true ∧ ((es.foldl Conn.step {}).dir d).delivered = sentUntilEof d es) := by
  have h := Inv.run es
  have key : ∀ x : Dir, DirInv es (es.foldl Conn.step {}).returned d x →
      x.closeWrites ≤ 1 ∧ (x.closeWrites = 1 → hasEof d es = true ∧ x.delivered = sentUntilEof d es) := by
    intro x hx
    rw [hx.closeWrites]
    by_cases hs : x.status = .doneNil
    · simp only [hs, if_true, Nat.le_refl, true_and]
      intro _; exact ⟨(hx.doneNil hs).2, (hx.doneNil hs).1⟩
    · simp [hs]
  cases d
  · exact key _ h.d0
  · exact key _ h.d1

/-- **Half-close iff the source half-closed.** If the source of a direction
half-closed, then either the half-close was forwarded (after all its bytes) or
the whole forwarding has ended and both connections are closed. -/
theorem half_close_forwarded (es : List Event) (d : Bool) (h : hasEof d es = true) :
    ((es.foldl Conn.step {}).dir d).closeWrites = 1 ∨ (es.foldl Conn.step {}).returned = true := by
  have hi := Inv.run es
  by_cases hr : (es.foldl Conn.step {}).returned = true
  · exact Or.inr hr
  · left
    have hr : (es.foldl Conn.step {}).returned = false := by simpa using hr
    have key : ∀ x : Dir, DirInv es false d x → x.closeWrites = 1 := by
      intro x hx
      rw [hx.closeWrites]
      have h1 : x.status ≠ .running := fun hs => by
        have := (hx.running rfl hs).2; rw [h] at this; cases this
      have h2 := hx.noErr rfl
      cases hs : x.status <;> simp_all
    have hd0 := hi.d0; have hd1 := hi.d1
    rw [hr] at hd0 hd1
    cases d
    · exact key _ hd0
    · exact key _ hd1

/-- **Fault-free relay is exact.** When nothing fails and nobody cancels, and
both sides eventually half-close, each direction delivers exactly the bytes
sent followed by exactly one half-close, after which both connections are
closed. -/
theorem relay_exact (es : List Event) (hff : faultFree es = true)
    (h0 : hasEof false es = true) (h1 : hasEof true es = true) :
    let c := es.foldl Conn.step {}
    c.d0.delivered = sentUntilEof false es ∧ c.d0.closeWrites = 1 ∧
    c.d1.delivered = sentUntilEof true es ∧ c.d1.closeWrites = 1 ∧
    c.returned = true ∧ c.closedFirst = 1 ∧ c.closedSecond = 1 := by
  intro c
  have hi : Inv es c := Inv.run es
  have hf : FF c := FF.foldl es {} FF.init hff
  have hret : c.returned = true := by
    rcases half_close_forwarded es false h0 with h | h
    · rcases half_close_forwarded es true h1 with h' | h'
      · -- both half-closes forwarded: the waiting loop has returned
        cases hr : c.returned with
        | true => rfl
        | false =>
          exfalso
          have hd0 := hi.d0; have hd1 := hi.d1
          have s0 : c.d0.status = .doneNil := by
            have := hd0.closeWrites
            change c.d0.closeWrites = 1 at h
            by_cases hs : c.d0.status = .doneNil
            · exact hs
            · rw [this] at h; simp [hs] at h
          have s1 : c.d1.status = .doneNil := by
            have := hd1.closeWrites
            change c.d1.closeWrites = 1 at h'
            by_cases hs : c.d1.status = .doneNil
            · exact hs
            · rw [this] at h'; simp [hs] at h'
          exact hi.notBoth hr ⟨s0, s1⟩
      · exact h'
    · exact h
  obtain ⟨s0, s1⟩ := hf.ret hret
  obtain ⟨c1, c2⟩ := hi.closedYes hret
  refine ⟨(hi.d0.doneNil s0).1, ?_, (hi.d1.doneNil s1).1, ?_, hret, c1, c2⟩
  · rw [hi.d0.closeWrites]; simp [s0]
  · rw [hi.d1.closeWrites]; simp [s1]

/-- **Both connections are closed on exit, in every case**: each exactly once
when `ForwardAndClose` has returned, and not at all before. -/
theorem both_closed_on_exit (es : List Event) :
    let c := es.foldl Conn.step {}
    (c.returned = true → c.closedFirst = 1 ∧ c.closedSecond = 1) ∧
    (c.returned = false → c.closedFirst = 0 ∧ c.closedSecond = 0) :=
  ⟨(Inv.run es).closedYes, (Inv.run es).closedNo⟩

/-- Cancellation makes the function return (and hence close both connections). -/
theorem returns_on_cancel (es : List Event) (h : Event.cancel ∈ es) :
    (es.foldl Conn.step {}).returned = true :=
  foldl_returned_of_cancel es {} h

/-- A failed copy direction makes the function return: a direction is never in
the failed state while the connections are still open. -/
theorem returns_on_failure (es : List Event) (d : Bool)
    (h : ((es.foldl Conn.step {}).dir d).status = .doneErr) : (es.foldl Conn.step {}).returned = true := by
  have hi := Inv.run es
  cases hr : (es.foldl Conn.step {}).returned with
  | true => rfl
  | false =>
    exfalso
    have hd0 := hi.d0; have hd1 := hi.d1
    rw [hr] at hd0 hd1
    cases d
    · exact hd0.noErr rfl h
    · exact hd1.noErr rfl h

/-- Once both sources have half-closed the function returns. -/
theorem returns_on_both_half_closes (es : List Event) (h0 : hasEof false es = true) (h1 : hasEof true es = true) :
    (es.foldl Conn.step {}).returned = true := by
  have hi := Inv.run es
  cases hr : (es.foldl Conn.step {}).returned with
  | true => rfl
  | false =>
    exfalso
    have key : ∀ (d : Bool) (x : Dir), DirInv es false d x → hasEof d es = true → x.status = .doneNil := by
      intro d x hx he
      have h1 : x.status ≠ .running := fun hs => by
        have := (hx.running rfl hs).2; rw [he] at this; cases this
      have h2 := hx.noErr rfl
      cases hs : x.status <;> simp_all
    have hd0 := hi.d0; have hd1 := hi.d1
    rw [hr] at hd0 hd1
    exact hi.notBoth hr ⟨key false _ hd0 h0, key true _ hd1 h1⟩

/-- With the final cancellation of the harness every run ends with both
connections closed exactly once. -/
theorem run_closed (es : List Event) :
    (Conn.run es).returned = true ∧ (Conn.run es).closedFirst = 1 ∧ (Conn.run es).closedSecond = 1 := by
  have hi : Inv (es ++ [.cancel]) (Conn.run es) := (Inv.run es).step .cancel
  have hr : (Conn.run es).returned = true := cancel_returned _
  exact ⟨hr, hi.closedYes hr⟩

/-- **Audited totals.** The sum of the auditor callbacks of a destination equals
the number of bytes that destination accepted. -/
theorem audit_totals (es : List Event) (d : Bool) :
    ((es.foldl Conn.step {}).dir d).audited = ((es.foldl Conn.step {}).dir d).delivered.length := by
  have h := Inv.run es
  cases d
  · exact h.d0.audited
  · exact h.d1.audited

/-! ## The forwarding loop of the controller -/

/-- At every moment the open-connection counter equals the number of accepted
connections whose `ForwardAndClose` has not returned yet (in particular it
never underflows), the total counts every accepted connection, and the data
totals equal the bytes accepted by the incoming / outgoing connections. -/
theorem counters_exact (es : List LoopEvent) :
    let l := es.foldl Loop.step {}
    l.counters.openConnections = (openCount l.conns : Int) ∧
    l.counters.totalConnections = l.conns.length ∧
    l.counters.inbound = (l.conns.map fun c => c.d0.delivered.length).sum ∧
    l.counters.outbound = (l.conns.map fun c => c.d1.delivered.length).sum := by
  intro l
  have h : LInv l := LInv.foldl es {} LInv.init
  have hp := foldl_step_pending es {}
  have hin : l.counters.inbound = sumIn l.conns := by
    have := h.inbound
    have hp1 : l.pendingIn = 0 := hp.1
    omega
  have hout : l.counters.outbound = sumOut l.conns := by
    have := h.outbound
    have hp2 : l.pendingOut = 0 := hp.2
    omega
  refine ⟨h.opened, h.total, ?_, ?_⟩
  · rw [hin, sumIn]
    congr 1
    apply List.map_congr_left
    intro c hc
    obtain ⟨es', hes'⟩ := h.reach c hc
    exact hes'.d0.audited
  · rw [hout, sumOut]
    congr 1
    apply List.map_congr_left
    intro c hc
    obtain ⟨es', hes'⟩ := h.reach c hc
    exact hes'.d1.audited

/-- **The open-connection count returns to zero** once the loop has ended and
all connections have finished; every accepted connection was counted, and both
ends of every connection were closed exactly once. -/
theorem open_connections_zero (es : List LoopEvent) :
    (Loop.run es).counters.openConnections = 0 ∧
    (Loop.run es).counters.totalConnections = (Loop.run es).conns.length ∧
    ∀ c ∈ (Loop.run es).conns, c.returned = true ∧ c.closedFirst = 1 ∧ c.closedSecond = 1 := by
  obtain ⟨h, hs⟩ := LInv.run es
  have hall := h.stopped hs
  refine ⟨?_, h.total, ?_⟩
  · rw [h.opened, openCount_of_all_returned _ hall]; rfl
  · intro c hc
    obtain ⟨es', hes'⟩ := h.reach c hc
    exact ⟨hall c hc, hes'.closedYes (hall c hc)⟩

/-- Every connection handled by the loop behaves like a single forwarded
connection under some script, so the single-connection theorems apply to it:
in particular it delivers prefixes, and half-closes only after all bytes. -/
theorem loop_connections_relay (es : List LoopEvent) :
    ∀ c ∈ (es.foldl Loop.step {}).conns, ∃ es' : List Event,
      c.d0.delivered <+: sent false es' ∧ c.d1.delivered <+: sent true es' ∧
      (c.d0.closeWrites = 1 → c.d0.delivered = sentUntilEof false es') ∧
      (c.d1.closeWrites = 1 → c.d1.delivered = sentUntilEof true es') ∧
      c.d0.closeWrites ≤ 1 ∧ c.d1.closeWrites ≤ 1 := by
  intro c hc
  have h : LInv (es.foldl Loop.step {}) := LInv.foldl es {} LInv.init
  obtain ⟨es', hi⟩ := h.reach c hc
  have key : ∀ (d : Bool) (x : Dir), DirInv es' c.returned d x →
      (x.closeWrites = 1 → x.delivered = sentUntilEof d es') ∧ x.closeWrites ≤ 1 := by
    intro d x hx
    rw [hx.closeWrites]
    by_cases hs : x.status = .doneNil
    · simp only [hs, if_true, Nat.le_refl, and_true]
      intro _; exact (hx.doneNil hs).1
    · simp [hs]
  exact ⟨es', hi.d0.isPrefix, hi.d1.isPrefix, (key false _ hi.d0).1, (key true _ hi.d1).1,
    (key false _ hi.d0).2, (key true _ hi.d1).2⟩

/-! ## Loop generations (teardown and restart of the forwarding loop) -/

/-- **Every generation's statistics are its own.** Whatever the script —
traffic, teardown/restart boundaries with destination writes still in flight,
late returns of those writes —, for the current forwarding loop and for every
earlier one: data totals plus the audits still pending for that loop equal the
bytes accepted by the destinations of *that loop's own* connections, its total
equals the connections it accepted, and its open count equals those of its
connections whose forwarding has not returned. -/
theorem generation_totals_exact (es : List CtlEvent) :
    let c := es.foldl Ctl.step {}
    ∀ g ∈ c.cur :: c.past,
      g.counters.inbound + g.pendingIn = (g.conns.map fun x => x.d0.delivered.length).sum ∧
      g.counters.outbound + g.pendingOut = (g.conns.map fun x => x.d1.delivered.length).sum ∧
      g.counters.totalConnections = g.conns.length ∧
      g.counters.openConnections = (openCount g.conns : Int) := by
  intro c g hg
  have hc : CInv c := CInv.foldl es {} CInv.init
  have h : LInv g := by
    simp only [List.mem_cons] at hg
    rcases hg with rfl | hg
    · exact hc.cur
    · exact hc.past g hg
  refine ⟨?_, ?_, h.total, h.opened⟩
  · rw [h.inbound, sumIn]
    congr 1
    apply List.map_congr_left
    intro x hx
    obtain ⟨es', hes'⟩ := h.reach x hx
    exact hes'.d0.audited
  · rw [h.outbound, sumOut]
    congr 1
    apply List.map_congr_left
    intro x hx
    obtain ⟨es', hes'⟩ := h.reach x hx
    exact hes'.d1.audited

/-- Once every write in flight has returned (as at the end of each run of the
harness), nothing is pending and the totals of every generation are exactly
the bytes its own connections relayed. -/
theorem generation_totals_settled (es : List CtlEvent) :
    ∀ g ∈ (Ctl.run es).cur :: (Ctl.run es).past,
      g.counters.inbound = (g.conns.map fun x => x.d0.delivered.length).sum ∧
      g.counters.outbound = (g.conns.map fun x => x.d1.delivered.length).sum := by
  intro g hg
  have h := generation_totals_exact (es ++ [.release]) g (by simpa [Ctl.run, List.foldl_append] using hg)
  have hp : g.pendingIn = 0 ∧ g.pendingOut = 0 := by
    simp only [Ctl.run, Ctl.step, List.mem_cons, List.mem_map] at hg
    rcases hg with rfl | ⟨g', _, rfl⟩ <;> exact release_pending _
  obtain ⟨h1, h2, _, _⟩ := h
  rw [hp.1] at h1; rw [hp.2] at h2
  exact ⟨by simpa using h1, by simpa using h2⟩

/-- **Audits of one generation never change the next generation's totals.**
The current generation's state after any script is the same whatever earlier
generations exist and whatever they still have pending; in particular, when
the writes in flight return, the current totals grow by the current loop's own
pending audits only. -/
theorem generations_isolated (es : List CtlEvent) (c₁ c₂ : Ctl) (h : c₁.cur = c₂.cur) :
    (es.foldl Ctl.step c₁).cur = (es.foldl Ctl.step c₂).cur :=
  foldl_cur_congr es c₁ c₂ h

theorem release_credits_own_generation (c : Ctl) :
    (c.step .release).cur.counters.inbound = c.cur.counters.inbound + c.cur.pendingIn ∧
    (c.step .release).cur.counters.outbound = c.cur.counters.outbound + c.cur.pendingOut ∧
    (c.step .release).cur.counters.totalConnections = c.cur.counters.totalConnections ∧
    (c.step .release).cur.counters.openConnections = c.cur.counters.openConnections :=
  ⟨rfl, rfl, rfl, rfl⟩

/-- A restart begins with an empty `State`: no connection, all counters zero,
nothing pending — whatever the previous loop had in flight. -/
theorem restart_starts_fresh (c : Ctl) (ws : List (Nat × Bool × List UInt8)) :
    (c.step (.restart ws)).cur.conns = [] ∧ (c.step (.restart ws)).cur.counters = {} ∧
    (c.step (.restart ws)).cur.pendingIn = 0 ∧ (c.step (.restart ws)).cur.pendingOut = 0 :=
  ⟨rfl, rfl, rfl, rfl⟩

/-! ## Non-vacuity -/

/-- Interleaved fault-free traffic with both half-closes. -/
example :
    let es : List Event := [.chunk false [1, 2] 2 false, .chunk true [9] 5 false, .eof true,
      .chunk false [3] 1 false, .eof false]
    faultFree es = true ∧ hasEof false es = true ∧ hasEof true es = true ∧
      (es.foldl Conn.step {}).d0.delivered = [1, 2, 3] ∧ (es.foldl Conn.step {}).d1.delivered = [9] := by
  decide

/-- A short write tears the connection down; the other direction's later data is not relayed. -/
example :
    let c := Conn.run [.chunk true [7, 8, 9] 2 false, .chunk false [1] 1 false, .eof false]
    c.d1.delivered = [7, 8] ∧ c.d0.delivered = [] ∧ c.d0.closeWrites = 0 ∧ c.closedFirst = 1 := by
  decide

/-- A write of 4 bytes is in flight on the only connection when the loop is
torn down; it returns after the new loop has accepted a connection and relayed
10 bytes: the new loop reports 10 outbound bytes, the old one 4. -/
example :
    let c := Ctl.run [.loop .open, .restart [(0, true, [1, 2, 3, 4])], .loop .open,
      .loop (.conn 0 (.chunk true [0, 1, 2, 3, 4, 5, 6, 7, 8, 9] 10 false))]
    c.cur.counters.outbound = 10 ∧ c.cur.counters.totalConnections = 1 ∧
      (c.past.map fun g => g.counters.outbound) = [4] := by
  decide

end Mutagen.Properties.C33
