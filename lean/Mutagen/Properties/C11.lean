import Mutagen.Model.SyncCycle
import Mutagen.Proofs.RootSafety
/-!
# C11 — root deletion, root type change and one-sided emptying halt the session

Property theorems only (helper lemmas live in `Mutagen.Proofs.RootSafety`).
-/
namespace Mutagen.Properties.C11
open Mutagen.Model Mutagen.Proofs.ReconcileShape Mutagen.Proofs.RootSafety

/-- `oneEndpointEmptiedRoot` is exactly the statement's situation: the
ancestor root is a directory with at least two entries, both endpoint roots are
directories, and exactly one of them has no entries. -/
theorem emptied_root_spec (A α β : Option Entry) :
    oneEndpointEmptiedRoot A α β = true ↔
      isKind A .directory = true ∧ isKind α .directory = true ∧ isKind β .directory = true ∧
        2 ≤ (contents A).length ∧
        (((contents α) = [] ∧ (contents β) ≠ []) ∨ ((contents α) ≠ [] ∧ (contents β) = [])) := by
  unfold oneEndpointEmptiedRoot
  cases hA : isKind A .directory
  · simp
  cases hα : isKind α .directory
  · simp
  cases hβ : isKind β .directory
  · simp
  simp only [Bool.not_true, Bool.false_eq_true, if_false, true_and]
  by_cases hl : (contents A).length < 2
  · simp only [hl, if_true, Bool.false_eq_true, false_iff]
    omega
  · simp only [hl, if_false]
    have h2 : 2 ≤ (contents A).length := by omega
    cases hca : contents α <;> cases hcb : contents β <;> simp [h2]

/-- `halt_before_effects`: for every mode, permissions mode, endpoint behaviour,
ancestor and pair of scans — if, on the contents that are reconciled (after
executability propagation), one endpoint emptied the root, or the plan contains
a root deletion or a root type change for either endpoint, then the cycle ends
halted, having made no call on any endpoint (no `Stage`, `Supply` or
`Transition`), having saved nothing, and with the ancestor unchanged. -/
theorem halt_before_effects (mode : Mode) (portable : Bool) (eps : Endpoints)
    (A : Option Entry) (α β : Scan) :
    let c := propagateStep portable A α β
    let plan := Reconcile A c.1 c.2 mode
    (oneEndpointEmptiedRoot A c.1 c.2 = true ∨
      containsRootDeletion plan.alpha = true ∨ containsRootDeletion plan.beta = true ∨
      containsRootTypeChange plan.alpha = true ∨ containsRootTypeChange plan.beta = true) →
    ∃ h, (cycle mode portable eps A α β).outcome = .halted h ∧
      (cycle mode portable eps A α β).events = [] ∧
      (cycle mode portable eps A α β).ancestor = A := by
  intro c plan h
  unfold cycle
  simp only []
  by_cases he : oneEndpointEmptiedRoot A (propagateStep portable A α β).1 (propagateStep portable A α β).2 = true
  · exact ⟨.rootEmptied, by simp [he]⟩
  · by_cases hd : (containsRootDeletion (Reconcile A (propagateStep portable A α β).1 (propagateStep portable A α β).2 mode).alpha ||
        containsRootDeletion (Reconcile A (propagateStep portable A α β).1 (propagateStep portable A α β).2 mode).beta) = true
    · exact ⟨.rootDeletion, by simp [he, hd]⟩
    · by_cases ht : (containsRootTypeChange (Reconcile A (propagateStep portable A α β).1 (propagateStep portable A α β).2 mode).alpha ||
          containsRootTypeChange (Reconcile A (propagateStep portable A α β).1 (propagateStep portable A α β).2 mode).beta) = true
      · exact ⟨.rootTypeChange, by simp [he, hd, ht]⟩
      · exfalso
        simp only [Bool.or_eq_true, not_or] at hd ht
        rcases h with h | h | h | h | h
        · exact he h
        · exact hd.1 h
        · exact hd.2 h
        · exact ht.1 h
        · exact ht.2 h

/-- `halt_on_one_sided_emptying`: if the ancestor root is a directory with at
least two entries, both scanned roots are directories and exactly one of them
is empty, the cycle halts (with `HaltedOnRootEmptied`) before any endpoint call,
in every mode and permissions mode and whatever the endpoints would answer. -/
theorem halt_on_one_sided_emptying (mode : Mode) (portable : Bool) (eps : Endpoints)
    (A : Option Entry) (α β : Scan)
    (hA : isKind A .directory = true) (h2 : 2 ≤ (contents A).length)
    (hα : isKind α.content .directory = true) (hβ : isKind β.content .directory = true)
    (hone : (contents α.content = [] ∧ contents β.content ≠ []) ∨
            (contents α.content ≠ [] ∧ contents β.content = [])) :
    (cycle mode portable eps A α β).outcome = .halted .rootEmptied ∧
      (cycle mode portable eps A α β).events = [] ∧
      (cycle mode portable eps A α β).ancestor = A := by
  have he : oneEndpointEmptiedRoot A (propagateStep portable A α β).1 (propagateStep portable A α β).2 = true := by
    rw [emptied_check_ignores_propagation]
    exact (emptied_root_spec A α.content β.content).mpr ⟨hA, hα, hβ, h2, hone⟩
  unfold cycle
  simp [he]

/-- Conversely, a halted cycle is caused by exactly one of the three checks. -/
theorem halt_only_for_safety (mode : Mode) (portable : Bool) (eps : Endpoints)
    (A : Option Entry) (α β : Scan) (h : Halt)
    (hh : (cycle mode portable eps A α β).outcome = .halted h) :
    let c := propagateStep portable A α β
    let plan := Reconcile A c.1 c.2 mode
    (h = .rootEmptied ∧ oneEndpointEmptiedRoot A c.1 c.2 = true) ∨
    (h = .rootDeletion ∧ (containsRootDeletion plan.alpha = true ∨ containsRootDeletion plan.beta = true)) ∨
    (h = .rootTypeChange ∧ (containsRootTypeChange plan.alpha = true ∨ containsRootTypeChange plan.beta = true)) := by
  intro c plan
  unfold cycle at hh
  simp only [] at hh
  by_cases he : oneEndpointEmptiedRoot A (propagateStep portable A α β).1 (propagateStep portable A α β).2 = true
  · simp only [he, if_true] at hh
    left; exact ⟨by injection hh with h'; exact h'.symm, he⟩
  · simp only [he] at hh
    by_cases hd : (containsRootDeletion (Reconcile A (propagateStep portable A α β).1 (propagateStep portable A α β).2 mode).alpha ||
        containsRootDeletion (Reconcile A (propagateStep portable A α β).1 (propagateStep portable A α β).2 mode).beta) = true
    · simp only [hd, if_true] at hh
      right; left
      exact ⟨by injection hh with h'; exact h'.symm, by simpa using hd⟩
    · simp only [hd] at hh
      by_cases ht : (containsRootTypeChange (Reconcile A (propagateStep portable A α β).1 (propagateStep portable A α β).2 mode).alpha ||
          containsRootTypeChange (Reconcile A (propagateStep portable A α β).1 (propagateStep portable A α β).2 mode).beta) = true
      · simp only [ht, if_true] at hh
        right; right
        exact ⟨by injection hh with h'; exact h'.symm, by simpa using ht⟩
      · exfalso
        simp only [ht] at hh
        revert hh
        simp only [Bool.false_eq_true, if_false]
        split
        · simp
        · split
          · simp
          · split
            · simp
            · split <;> try simp
              split <;> simp

/-- `halted_absorbing`: a halted run loop stays halted, and touches nothing,
under every sequence of triggers and reconnect timers; only cancellation (the
user pausing, resetting or terminating the session) ends the halt. -/
theorem halted_absorbing (mode : Mode) (portable : Bool) (eps : Endpoints) (h : Halt)
    (a : Option Entry) (inputs : List RunInput)
    (hc : ∀ i ∈ inputs, ∀ (_ : i = RunInput.cancel), False) :
    runLoop mode portable eps (.halted h a) inputs = (.halted h a, []) := by
  induction inputs with
  | nil => rfl
  | cons i is ih =>
    have hi : runStep mode portable eps (.halted h a) i = (.halted h a, []) := by
      cases i with
      | cancel => exact absurd rfl (fun e => hc _ (List.mem_cons_self ..) e)
      | trigger α β => rfl
      | reconnect => rfl
    have := ih (fun j hj => hc j (List.mem_cons_of_mem _ hj))
    simp [runLoop, hi, this]

/-- Cancellation is the way out: it terminates the loop from every state. -/
theorem cancel_terminates (mode : Mode) (portable : Bool) (eps : Endpoints) (s : RunState) :
    (runStep mode portable eps s .cancel).1 = .terminated := by
  cases s <;> rfl

/-- A cycle that halts moves the run loop into the halted state (so by
`halted_absorbing` nothing is ever called on an endpoint again until cancel). -/
theorem halting_cycle_halts_loop (mode : Mode) (portable : Bool) (eps : Endpoints)
    (a : Option Entry) (α β : Scan) (h : Halt)
    (hh : (cycle mode portable eps a α β).outcome = .halted h) :
    runStep mode portable eps (.synchronizing a) (.trigger α β) =
      (.halted h (cycle mode portable eps a α β).ancestor, (cycle mode portable eps a α β).events) := by
  simp [runStep, hh]

/-- `root_change_is_root_transition`: a change whose path is not the root path
can be applied only to an existing root and leaves the root's scalar fields (in
particular its kind) as they are — so a root can only be deleted or retyped by a
change at the root path `[]`, which is what `IsRootDeletion` / `IsRootTypeChange`
look at. -/
theorem root_change_is_root_transition (r r' : Option Entry) (c : Change) (hp : c.path ≠ [])
    (h : applyChange r c = .ok r') :
    r.isSome = true ∧ r'.map Entry.props = r.map Entry.props :=
  ⟨(applyChange_nonroot r r' c hp h).2, (applyChange_nonroot r r' c hp h).1⟩

/-- `root_checks_complete`: for every mode and every (ancestor, alpha, beta),
for either endpoint: if the changes planned for the endpoint contain neither a
root deletion nor a root type change (so the cycle does not halt for them),
then applying them exactly to the endpoint's content keeps an existing root in
existence, with the same kind. The two checks therefore catch *every* plan that
would delete or retype a root. -/
theorem root_checks_complete (mode : Mode) (A α β : Option Entry) (toAlpha : Bool) (x' : Option Entry) :
    let cs := if toAlpha then (Reconcile A α β mode).alpha else (Reconcile A α β mode).beta
    let x := if toAlpha then α else β
    containsRootDeletion cs = false → containsRootTypeChange cs = false →
    apply x cs = .ok x' → x.isSome = true →
    x'.isSome = true ∧ x'.map Entry.kind = x.map Entry.kind := by
  intro cs x hd ht ha hx
  have hcs : cs = side toAlpha (reconcile mode [] A α β) := by
    simp only [cs, side, Reconcile]
  rcases reconcile_root_cases mode A α β toAlpha with h | ⟨c, h1, h2, h3⟩
  · have := apply_nonroot cs (by rw [hcs]; exact h) x x' ha
    simp only [oprops] at this
    cases hx' : x' <;> cases hxx : x <;> simp_all [Entry.kind]
  · rw [← hcs] at h1
    rw [h1] at hd ht ha
    simp only [apply, applyChange, h2] at ha
    injection ha with ha
    subst ha
    simp only [containsRootDeletion, containsRootTypeChange, Change.isRootDeletion,
      Change.isRootTypeChange, h2, List.isEmpty_nil, Bool.true_and] at hd ht
    have h3' : oprops c.old = oprops x := h3
    simp only [oprops] at h3'
    cases hold : c.old <;> cases hnew : c.new <;> cases hxx : x <;>
      simp_all [Entry.kind]

/-- Non-vacuity: a concrete one-sided emptying halts. -/
example :
    let f (d : UInt8) : Entry := .mk { kind := .file, digest := [d] } []
    let A : Option Entry := some (.mk { kind := .directory } [("a", f 1), ("b", f 2)])
    let E : Option Entry := some (.mk { kind := .directory } [])
    oneEndpointEmptiedRoot A E A = true := by decide

end Mutagen.Properties.C11
