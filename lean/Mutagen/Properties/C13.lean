import Mutagen.Proofs.ScanAccel
/-!
# C13 — accelerated scans equal full scans

`scan cfg prev root` is the model of `core.Scan` with a baseline snapshot,
recheck paths, a digest cache and an ignore cache (`Mutagen.Model.ScanFS`).
-/
namespace Mutagen.Properties.C13
open Mutagen.Model Mutagen.Model.ScanFS Mutagen.Proofs.ScanFS Mutagen.Proofs.ScanAccel

/-- The `len(recheckPaths) == 0` shortcut (scan.go:809-811): with a baseline of
the right root kind and the same probed behaviours and no recheck path, the
baseline and both caches are returned unchanged — for every filesystem. -/
theorem no_recheck_returns_baseline (cfg : Cfg) (prev : Prev) (dev : Nat) (children : Children)
    (b : Snapshot) (c : Entry) (hb : prev.baseline = some b) (hc : b.content = some c) (hk : c.kind = .directory)
    (hx : b.preservesExec = cfg.preservesExec) (hd : b.decomposes = cfg.decomposes) (hr : prev.recheck = []) :
    scan cfg prev (some (.dir dev children)) = .ok { snapshot := b, cache := prev.cache, ignoreCache := prev.ignoreCache } := by
  unfold scan
  simp [hb, hc, hk, hx, hd, hr]

/-- A baseline of another root kind, or taken under other probed behaviours, is
ignored: the scan is the one without baseline (scan.go:794-802). -/
theorem mismatching_baseline_ignored (cfg : Cfg) (prev : Prev) (root : Node) (b : Snapshot)
    (hb : prev.baseline = some b)
    (hm : b.preservesExec ≠ cfg.preservesExec ∨ b.decomposes ≠ cfg.decomposes ∨ b.content = none) :
    scan cfg prev (some root) = scan cfg { prev with baseline := none } (some root) := by
  unfold scan
  cases root with
  | symlink t => rfl
  | other k => rfl
  | file content perm mtime size ino =>
    cases hcn : b.content with
    | none => simp [hb, hcn]
    | some c =>
      rcases hm with h | h | h
      · simp [hb, hcn, h]
      · simp [hb, hcn, h]
      · rw [hcn] at h; cases h
  | dir dev children =>
    cases hcn : b.content with
    | none => simp [hb, hcn]
    | some c =>
      rcases hm with h | h | h
      · simp [hb, hcn, h]
      · simp [hb, hcn, h]
      · rw [hcn] at h; cases h

/-! ## The hypotheses are necessary -/

/-- `content_change_must_be_visible`: if a file's content changes while its size,
modification time and inode number stay the same, the accelerated scan reuses
the stale digest although the path was reported, and so differs from the cold
scan of the same tree. -/
theorem content_change_must_be_visible :
    digestAt (accelAfter (exCfg decAB) fsBefore ["a"] fsStealth) ["a"] = some [3, 1] ∧
    digestAt (scanCold (exCfg decAB) (some fsStealth)) ["a"] = some [3, 4] := by decide +kernel

/-- With the modification time moved, the same change is seen: snapshot content,
counters and digest cache of the accelerated scan equal those of the cold scan. -/
theorem visible_change_is_seen :
    (match accelAfter (exCfg decAB) fsBefore ["a"] fsTouched, scanCold (exCfg decAB) (some fsTouched) with
     | .ok w, .ok c => w.cache == c.cache && w.snapshot.size == c.snapshot.size &&
         w.snapshot.files == c.snapshot.files && w.snapshot.dirs == c.snapshot.dirs
     | _, _ => false) = true ∧
    digestAt (accelAfter (exCfg decAB) fsBefore ["a"] fsTouched) ["a"] = some [3, 4] := by decide +kernel

/-- `changes_must_be_reported`: a change below a directory that is not among the
dirty paths is not seen (the baseline sub-tree is reused); reported, it is. -/
theorem changes_must_be_reported :
    digestAt (accelAfter (exCfg decAB) fsBefore ["a"] fsDeep) ["b", "a"] = some [1, 9] ∧
    digestAt (scanCold (exCfg decAB) (some fsDeep)) ["b", "a"] = some [2, 8] ∧
    digestAt (accelAfter (exCfg decAB) fsBefore ["b/a"] fsDeep) ["b", "a"] = some [2, 8] := by decide +kernel

end Mutagen.Properties.C13
