import Mutagen.Proofs.ScanAccelMain
/-!
# C13 — accelerated scans equal full scans

`scan cfg prev root` is the model of `core.Scan` with a baseline snapshot,
recheck paths, a digest cache and an ignore cache (`Mutagen.Model.ScanFS`).

Main theorem `accel_eq_cold`: for **every** configuration (ignorer, modes,
behaviours, hash, fault sets), every old tree `f₀` and new tree `f₁` (directory
roots on the same device) and every recheck list, if
* the base is the cold scan of `f₀` with its caches (and the old root scanned
  to a tracked directory),
* the dirty paths (the recheck paths closed under `fastpath.Dir`, as scan.go
  computes them) cover the changes — `Covers`: a directory present in both
  trees whose path is not dirty is unchanged (or, on Linux, was empty), and a
  file present in both with equal modification time, size and inode number
  has equal content —
* names are recorded legally and distinctly in both trees (`NamesOK`, as in C12),
then the accelerated scan of `f₁` and the cold scan of `f₁` both fail or both
succeed with **the same snapshot** (content and all four counters), **the
same digest cache**, and ignore caches related as follows:
* both hold only the ignorer's answers;
* the accelerated ignore cache is a **sub-map** of the cold one (every binding of
  the accelerated cache is a binding of the cold cache);
* a binding of the cold cache can be missing from the accelerated one **only at or
  below a directory path `cp` that is not dirty and at which the baseline has an
  entry `B`** (`BaseAt E₀ cp B`), **and only if its key is not the key of a tracked
  entry of `B`** (content that the baseline ignores, does not track, reports as
  problematic or does not have) — everywhere else the two caches are equal.
Below a directory that is not dirty the scan does not descend: it walks the
baseline entry instead (scan.go:527-560), and `walk_carries_over` says exactly
which bindings that walk produces: the old ignore cache's bindings for the keys
`(path, isDirectory)` of the baseline sub-tree's entries that are neither
untracked nor problematic (`TrackedKey`); keys of ignored content (absent from
the baseline), of untracked and of problematic entries are dropped, as are keys
the old cache does not bind.  `cold_cache_binds_tracked_keys` shows the old
cache (a cold scan's) does bind every such key, so
(`walk_carries_every_tracked_key`) the walk over a baseline sub-tree carries over
the keys of its tracked entries, all of them and nothing else; what is dropped
are the keys of ignored, untracked and problematic content.
`reused_directory_step` is the loop step that uses the walk.

`accel_eq_cold_file_root` is the same statement for roots that are regular
files.  `same_root_device_needed`: the theorem does not extend to a root that
moved to another device.

The hypotheses are exactly the property's: `content_change_must_be_visible`
and `changes_must_be_reported` below show, on concrete trees, that dropping
either one makes the accelerated scan differ from the cold one.
-/
namespace Mutagen.Properties.C13
open Mutagen.Model Mutagen.Model.ScanFS Mutagen.Proofs.ScanFS Mutagen.Proofs.ScanAccel
open Mutagen.Proofs.ScanReuse Mutagen.Proofs.ScanSim Mutagen.Proofs.ScanAccelMain Mutagen.Proofs.ScanIgnKeys
open Mutagen.Proofs.ScanPaths (Under)
open Mutagen.Proofs.ScanCold (andThen ignSt)
open Mutagen.Proofs.ScanFrame (add)

theorem no_recheck_aux (cfg : Cfg) (out₀ : Out) (dev : Nat) (cs : Children) (E₀ : Entry)
    (hroot : out₀.snapshot.content = some E₀) (hk : E₀.kind = .directory)
    (hx : out₀.snapshot.preservesExec = cfg.preservesExec) (hd : out₀.snapshot.decomposes = cfg.decomposes) :
    scan cfg (prevOf out₀ []) (some (.dir dev cs)) = .ok out₀ := by
  unfold scan prevOf
  simp [hroot, hk, hx, hd]

/-- A cold scan's ignore cache binds the key of every tracked entry of its snapshot
(the root itself excepted: nothing asks whether the root is ignored). -/
theorem cold_cache_binds_tracked_keys (cfg : Cfg) (dev : Nat) (cs : Children) (out : Out) (E : Entry)
    (h : scanCold cfg (some (.dir dev cs)) = .ok out) (hroot : out.snapshot.content = some E)
    (k : String × Bool) (hk : TrackedKey "" E k) : k = ("", true) ∨ ∃ v, alookup k out.ignoreCache = some v := by
  rw [Mutagen.Proofs.ScanFS.scanCold_dir] at h
  have hc := coldKeys_node { cfg with deviceID := dev } (.dir dev cs) "" true false (.none, "")
  simp only [Mutagen.Proofs.ScanCold.cold] at hc
  revert h hc
  cases scanNode { cfg with deviceID := dev } {} "" true none false (.none, "") (.dir dev cs) {} with
  | mk r d =>
    cases r with
    | entry e =>
      simp only [outOf]
      intro h hc
      cases h
      simp only at hroot
      cases hroot
      rcases hc E rfl k hk with h1 | h1
      · exact Or.inl h1
      · exact Or.inr (key_alookup _ k h1)
    | notExist => simp [outOf]
    | abort => simp [outOf]

/-- `accel_eq_cold`. -/
theorem accel_eq_cold (cfg : Cfg) (dev : Nat) (cs₀ cs₁ : Children) (recheck dirty : List String) (out₀ : Out) (E₀ : Entry)
    (hnames₀ : NamesOK cfg validName (.dir dev cs₀)) (hnames₁ : NamesOK cfg validName (.dir dev cs₁))
    (hbase : scanCold cfg (some (.dir dev cs₀)) = .ok out₀)
    (hroot : out₀.snapshot.content = some E₀) (hrootKind : E₀.kind = .directory)
    (hrecheck : recheck ≠ []) (hdirty : dirtyClosure recheck [] = some dirty)
    (hcovers : Covers cfg dirty "" (.dir dev cs₀) (.dir dev cs₁)) :
    match scan cfg (prevOf out₀ recheck) (some (.dir dev cs₁)), scanCold cfg (some (.dir dev cs₁)) with
    | .ok w, .ok c =>
      w.snapshot = c.snapshot ∧ w.cache = c.cache ∧
      (∀ k v, alookup k w.ignoreCache = some v → v = cfg.ignorer k.1 k.2) ∧
      (∀ k v, alookup k c.ignoreCache = some v → v = cfg.ignorer k.1 k.2) ∧
      (∀ k v, alookup k w.ignoreCache = some v → alookup k c.ignoreCache = some v) ∧
      (∀ k v, alookup k c.ignoreCache = some v →
        alookup k w.ignoreCache = some v ∨
        ∃ cp B, cp ≠ "" ∧ cp ∉ dirty ∧ BaseAt E₀ cp B ∧ Under k.1 cp ∧ ¬ TrackedKey cp B k)
    | .error e, .error e' => e = e'
    | _, _ => False := by
  have h := accel_eq_cold_core cfg dev cs₀ cs₁ recheck dirty out₀ E₀ hnames₀ hnames₁ hbase hroot hrootKind hrecheck hdirty hcovers
  revert h
  cases scan cfg (prevOf out₀ recheck) (some (.dir dev cs₁)) with
  | error e => cases scanCold cfg (some (.dir dev cs₁)) <;> exact id
  | ok w =>
    cases scanCold cfg (some (.dir dev cs₁)) with
    | error e => exact id
    | ok c =>
      intro h
      obtain ⟨h1, h2, h3, h4, h5, h6⟩ := h
      refine ⟨h1, h2, fun k v hk => ignOK_lookup cfg _ h3 k v hk, fun k v hk => ignOK_lookup cfg _ h4 k v hk,
        submap_of_keys cfg _ _ h3 h4 h5, ?_⟩
      intro k v hk
      rcases h6 k (alookup_some_key _ k v hk) with hw | hd
      · left
        obtain ⟨v', hv'⟩ := key_alookup _ k hw
        rw [hv', ignOK_lookup cfg _ h3 k v' hv', ignOK_lookup cfg _ h4 k v hk]
      · right
        obtain ⟨cp, B, hne, hnd, hat, hu, hnot⟩ := hd
        refine ⟨cp, B, hne, hnd, hat, hu, ?_⟩
        intro ht
        rcases cold_cache_binds_tracked_keys cfg dev cs₀ out₀ E₀ hbase hroot k (trackedKey_lift E₀ cp B k hat ht) with h0 | ⟨v0, h0⟩
        · rw [h0] at hu
          exact hne (under_empty cp hu)
        · exact hnot ⟨ht, alookup_some_key _ k v0 h0⟩

/-- `accel_eq_cold` for a root that is a regular file (before and after): with
recheck paths, the accelerated scan equals the cold scan — same snapshot, same
digest cache, and both ignore caches empty (no ignore question is asked about
the root) — provided a content change shows in the modification time, the size
or the inode number.  No other hypothesis is needed: whatever the old scan
returned for the old file (a file entry, or a problematic one, in which case the
baseline is discarded by scan.go:794-802), the digest is reused only under the
`Covers` condition. -/
theorem accel_eq_cold_file_root (cfg : Cfg) (content₀ : Bytes) (perm₀ : Nat) (mtime₀ : MTime) (size₀ ino₀ : Nat)
    (content₁ : Bytes) (perm₁ : Nat) (mtime₁ : MTime) (size₁ ino₁ : Nat) (recheck dirty : List String) (out₀ : Out)
    (hbase : scanCold cfg (some (.file content₀ perm₀ mtime₀ size₀ ino₀)) = .ok out₀)
    (hrecheck : recheck ≠ []) (hdirty : dirtyClosure recheck [] = some dirty)
    (hcovers : Covers cfg dirty "" (.file content₀ perm₀ mtime₀ size₀ ino₀) (.file content₁ perm₁ mtime₁ size₁ ino₁)) :
    match scan cfg (prevOf out₀ recheck) (some (.file content₁ perm₁ mtime₁ size₁ ino₁)),
          scanCold cfg (some (.file content₁ perm₁ mtime₁ size₁ ino₁)) with
    | .ok w, .ok c => w.snapshot = c.snapshot ∧ w.cache = c.cache ∧ w.ignoreCache = [] ∧ c.ignoreCache = []
    | .error e, .error e' => e = e'
    | _, _ => False :=
  accel_eq_cold_file_core cfg content₀ perm₀ mtime₀ size₀ ino₀ content₁ perm₁ mtime₁ size₁ ino₁ recheck dirty out₀
    hbase hrecheck hdirty (by simpa [Covers] using hcovers)

/-- With the old caches of a cold scan, the baseline walk at a path where the baseline
has the entry `B` carries over the keys of the tracked entries of `B` — all of
them and no other key. -/
theorem walk_carries_every_tracked_key (cfg : Cfg) (dev : Nat) (cs₀ : Children) (out₀ : Out) (E₀ : Entry)
    (hbase : scanCold cfg (some (.dir dev cs₀)) = .ok out₀) (hroot : out₀.snapshot.content = some E₀)
    (acc : Accel) (hacc : acc.ignoreCache = out₀.ignoreCache) (cp : String) (B : Entry) (hat : BaseAt E₀ cp B)
    (k : String × Bool) :
    (k ∈ ikeys (reuseWalk acc cp B ({}, false)).1.newIgnore → TrackedKey cp B k) ∧
    (TrackedKey cp B k → k = ("", true) ∨ k ∈ ikeys (reuseWalk acc cp B ({}, false)).1.newIgnore) := by
  constructor
  · intro hk
    simp only [ikeys, List.mem_map] at hk
    obtain ⟨kv, hkv, rfl⟩ := hk
    exact ((reuseWalk_ign acc B cp kv).mp hkv).1
  · intro ht
    rcases cold_cache_binds_tracked_keys cfg dev cs₀ out₀ E₀ hbase hroot k (trackedKey_lift E₀ cp B k hat ht) with h0 | ⟨v, hv⟩
    · exact Or.inl h0
    · right
      simp only [ikeys, List.mem_map]
      exact ⟨(k, v), (reuseWalk_ign acc B cp (k, v)).mpr ⟨ht, by rw [hacc]; exact hv⟩, rfl⟩

/-- The loop step for a directory that is reused (scan.go:527-560): when the ignore
stage lets the child through (`.go`), its baseline entry `B` is usable
(`reuseDecision`: the child is a directory, the baseline has a directory entry
for it, its path is not dirty and — on Linux — the baseline directory is not
empty) and the walk finds every digest-cache entry, the loop records `B` under
the child's name and adds to the scanner state exactly the child's own
ignore-cache binding plus what the walk adds (`add`: field-wise sum of scanner
states, `andThen`: prepend to the rest of the loop); it does not open the directory. -/
theorem reused_directory_step (cfg : Cfg) (acc : Accel) (pfx : String) (all : Children) (raw : Bytes) (node : Node)
    (rest : Children) (baseline : Option Entry) (mask : Bool) (contents : Contents)
    (name decoded cp : String) (isDir : Bool) (ign : (String × Bool) × IgnoreVal) (cm : Bool) (B : Entry)
    (hpre : preDispatch cfg acc pfx mask raw node = .go name decoded cp isDir ign cm)
    (hreuse : reuseDecision cfg acc cp (childBaseline baseline isDir name) = some B)
    (hfound : (reuseWalk acc cp B ({}, false)).2 = false) :
    scanChildren cfg acc pfx all ((raw, node) :: rest) baseline mask contents {} =
      andThen (add (ignSt [ign]) (reuseWalk acc cp B ({}, false)).1)
        (scanChildren cfg acc pfx all rest baseline mask (upsert name B contents) {}) := by
  rw [Mutagen.Proofs.ScanCold.scanChildren_cons, hpre]
  simp only [hreuse, hfound, Bool.false_eq_true, if_false]

/-- What the baseline walk (scan.go:527-560, used instead of descending into a
directory that is not dirty) adds to the new ignore cache: exactly the old
cache's bindings of the keys of the tracked entries of the baseline sub-tree. -/
theorem walk_carries_over (acc : Accel) (baseline : Entry) (path : String) (k : String × Bool) (v : IgnoreVal) :
    (k, v) ∈ (reuseWalk acc path baseline ({}, false)).1.newIgnore ↔
      TrackedKey path baseline k ∧ alookup k acc.ignoreCache = some v :=
  reuseWalk_ign acc baseline path (k, v)

/-- Without recheck paths an unchanged tree is answered from the base alone, and
that answer is the cold scan's. -/
theorem accel_unchanged_no_recheck (cfg : Cfg) (dev : Nat) (cs : Children) (out₀ : Out) (E₀ : Entry)
    (hbase : scanCold cfg (some (.dir dev cs)) = .ok out₀)
    (hroot : out₀.snapshot.content = some E₀) (hrootKind : E₀.kind = .directory) :
    scan cfg (prevOf out₀ []) (some (.dir dev cs)) = scanCold cfg (some (.dir dev cs)) := by
  rw [hbase]
  have hx : out₀.snapshot.preservesExec = cfg.preservesExec ∧ out₀.snapshot.decomposes = cfg.decomposes := by
    rw [scanCold_dir] at hbase
    revert hbase
    cases scanNode { cfg with deviceID := dev } {} "" true none false (.none, "") (.dir dev cs) {} with
    | mk r d =>
      cases r <;> simp [outOf]
      intro h; subst h; exact ⟨rfl, rfl⟩
  have := Mutagen.Properties.C13.no_recheck_aux cfg out₀ dev cs E₀ hroot hrootKind hx.1 hx.2
  exact this

/-- The `len(recheckPaths) == 0` shortcut (scan.go:809-811): with a baseline of
the right root kind and the same probed behaviours and no recheck path, the
baseline and both caches are returned unchanged — for every filesystem. -/
theorem no_recheck_returns_baseline (cfg : Cfg) (prev : Prev) (dev : Nat) (children : Children)
    (b : Snapshot) (c : Entry) (hb : prev.baseline = some b) (hc : b.content = some c) (hk : c.kind = .directory)
    (hx : b.preservesExec = cfg.preservesExec) (hd : b.decomposes = cfg.decomposes) (hr : prev.recheck = []) :
    scan cfg prev (some (.dir dev children)) = .ok { snapshot := b, cache := prev.cache, ignoreCache := prev.ignoreCache } := by
  unfold scan
  simp [hb, hc, hk, hx, hd, hr]

/-- A baseline of another root kind, or taken under other probed behaviours, is
ignored: the scan is the one without baseline (scan.go:794-802). -/
theorem mismatching_baseline_ignored (cfg : Cfg) (prev : Prev) (root : Node) (b : Snapshot)
    (hb : prev.baseline = some b)
    (hm : b.preservesExec ≠ cfg.preservesExec ∨ b.decomposes ≠ cfg.decomposes ∨ b.content = none) :
    scan cfg prev (some root) = scan cfg { prev with baseline := none } (some root) := by
  unfold scan
  cases root with
  | symlink t => rfl
  | other k => rfl
  | file content perm mtime size ino =>
    cases hcn : b.content with
    | none => simp [hb, hcn]
    | some c =>
      rcases hm with h | h | h
      · simp [hb, hcn, h]
      · simp [hb, hcn, h]
      · rw [hcn] at h; cases h
  | dir dev children =>
    cases hcn : b.content with
    | none => simp [hb, hcn]
    | some c =>
      rcases hm with h | h | h
      · simp [hb, hcn, h]
      · simp [hb, hcn, h]
      · rw [hcn] at h; cases h

/-! ## The hypotheses are necessary -/

/-- `content_change_must_be_visible`: if a file's content changes while its size,
modification time and inode number stay the same, the accelerated scan reuses
the stale digest although the path was reported, and so differs from the cold
scan of the same tree. -/
theorem content_change_must_be_visible :
    digestAt (accelAfter (exCfg decAB) fsBefore ["a"] fsStealth) ["a"] = some [3, 1] ∧
    digestAt (scanCold (exCfg decAB) (some fsStealth)) ["a"] = some [3, 4] := by decide +kernel

/-- With the modification time moved, the same change is seen: snapshot content,
counters and digest cache of the accelerated scan equal those of the cold scan. -/
theorem visible_change_is_seen :
    (match accelAfter (exCfg decAB) fsBefore ["a"] fsTouched, scanCold (exCfg decAB) (some fsTouched) with
     | .ok w, .ok c => w.cache == c.cache && w.snapshot.size == c.snapshot.size &&
         w.snapshot.files == c.snapshot.files && w.snapshot.dirs == c.snapshot.dirs
     | _, _ => false) = true ∧
    digestAt (accelAfter (exCfg decAB) fsBefore ["a"] fsTouched) ["a"] = some [3, 4] := by decide +kernel

/-- `changes_must_be_reported`: a change below a directory that is not among the
dirty paths is not seen (the baseline sub-tree is reused); reported, it is. -/
theorem changes_must_be_reported :
    digestAt (accelAfter (exCfg decAB) fsBefore ["a"] fsDeep) ["b", "a"] = some [1, 9] ∧
    digestAt (scanCold (exCfg decAB) (some fsDeep)) ["b", "a"] = some [2, 8] ∧
    digestAt (accelAfter (exCfg decAB) fsBefore ["b/a"] fsDeep) ["b", "a"] = some [2, 8] := by decide +kernel

/-- `accel_eq_cold` needs the old and the new root on the same device.  The device
test (scan.go:333) sits in the directory handler, which a reused directory never
reaches (scan.go:527-533): if the root moves to another device while an unchanged,
not dirty sub-directory stays on the old one, the accelerated scan keeps the
sub-directory's old content where the cold scan reports "scan crossed filesystem
boundary".  (A statement about the model.  `harness/cmd/c13dev` builds this
scenario with a tmpfs root and a bind mount and shows the same difference for the
real `core.Scan`; the C13 tie itself does not move roots between devices.) -/
theorem same_root_device_needed :
    kindAt (accelAfter (exCfg decAB) fsBefore ["a"] fsMoved) ["b"] = some .directory ∧
    kindAt (scanCold (exCfg decAB) (some fsMoved)) ["b"] = some .problematic := by decide +kernel

/-- The hypotheses of `accel_eq_cold` hold for `fsBefore` → `fsTouched` with recheck path `a`
(the file `a` was rewritten and its modification time moved; `b/` is unchanged and not dirty). -/
example :
    NamesOK (exCfg decAB) validName fsBefore ∧ NamesOK (exCfg decAB) validName fsTouched ∧
    isOk (scanCold (exCfg decAB) (some fsBefore)) = true ∧
    dirtyClosure ["a"] [] = some ["", "a"] ∧
    Covers (exCfg decAB) ["", "a"] "" fsBefore fsTouched := by
  refine ⟨?_, ?_, by decide +kernel, by decide +kernel, ?_⟩
  · exact exNames fsBefore _ _ rfl (by simp [NamesOK]) (exNamesLeafDir _ (fun _ _ h => by cases h))
  · exact exNames fsTouched _ _ rfl (by simp [NamesOK]) (exNamesLeafDir _ (fun _ _ h => by cases h))
  · have e1 : entryName (exCfg decAB) [97] = some "a" := by decide
    have e2 : entryName (exCfg decAB) [98] = some "b" := by decide
    simp only [fsBefore, fsTouched, Covers, CoversL, List.isEmpty_cons, Bool.false_eq_true, if_false, joinable, if_true]
    refine ⟨?_, ?_, trivial⟩
    · intro name hn raw₀ c₀ hm hn₀
      rw [e1] at hn
      cases hn
      simp only [List.mem_cons, Prod.mk.injEq, List.not_mem_nil, or_false] at hm
      rcases hm with ⟨rfl, rfl⟩ | ⟨rfl, rfl⟩
      · refine ⟨?_, fun h => by simp [isDirNode] at h⟩
        intro h; cases h
      · rw [e2] at hn₀; exact absurd hn₀ (by decide)
    · intro name hn raw₀ c₀ hm hn₀
      rw [e2] at hn
      cases hn
      simp only [List.mem_cons, Prod.mk.injEq, List.not_mem_nil, or_false] at hm
      rcases hm with ⟨rfl, rfl⟩ | ⟨rfl, rfl⟩
      · rw [e1] at hn₀; exact absurd hn₀ (by decide)
      · refine ⟨?_, fun _ _ _ => Or.inl rfl⟩
        refine ⟨?_, trivial⟩
        intro name hn raw₀ c₀ hm hn₀
        simp only [List.mem_cons, Prod.mk.injEq, List.not_mem_nil, or_false] at hm
        obtain ⟨rfl, rfl⟩ := hm
        refine ⟨?_, fun h => by simp [isDirNode] at h⟩
        simp

end Mutagen.Properties.C13
