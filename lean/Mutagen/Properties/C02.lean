import Mutagen.Proofs.Reconcile
/-!
# C02 — directional modes respect their direction and protect the right side

Theorems about the executable model `Mutagen.Model.Reconcile` of
`reconcile.go` (tied to `core.Reconcile` by the C02 correspondence stream, all
four modes). Helper lemmas live in `Mutagen.Proofs.Reconcile`. All statements
hold for arbitrary trees (no validity hypotheses).
-/
namespace Mutagen.Properties.C02
open Mutagen.Model

/-- In both one-way modes the plan never contains a change for alpha. -/
theorem oneWay_no_alpha_changes (A alpha beta : Option Entry) :
    (Reconcile A alpha beta .oneWaySafe).alpha = [] ∧ (Reconcile A alpha beta .oneWayReplica).alpha = [] :=
  ⟨reconcile_oneWay_alpha .oneWaySafe (Or.inl rfl) [] A alpha beta,
   reconcile_oneWay_alpha .oneWayReplica (Or.inr rfl) [] A alpha beta⟩

/-- One-way-safe never deletes or overwrites beta content created or modified
since the last synchronization: for every planned beta change, `Old`
describes what beta holds there and every entry existing on beta at or below
the change's path is recorded identically in the last-synchronized tree. -/
theorem oneWaySafe_beta_unmodified (A alpha beta : Option Entry) :
    ∀ c ∈ (Reconcile A alpha beta .oneWaySafe).beta,
      SameTree c.old (getPath beta c.path) ∧
      ∀ q, c.path <+: q → pget beta q = none ∨ pget beta q = pget A q :=
  protected_no_loss (reconcile_protects_beta .oneWaySafe rfl [] A alpha beta A (Or.inl rfl))

/-- Two-way-resolved never deletes or overwrites alpha content created or
modified since the last synchronization. -/
theorem twoWayResolved_alpha_unmodified (A alpha beta : Option Entry) :
    ∀ c ∈ (Reconcile A alpha beta .twoWayResolved).alpha,
      SameTree c.old (getPath alpha c.path) ∧
      ∀ q, c.path <+: q → pget alpha q = none ∨ pget alpha q = pget A q :=
  protected_no_loss (reconcile_protects_alpha .twoWayResolved [] A alpha beta A (Or.inl rfl))

/-- Direction: in both one-way modes every planned beta change installs exactly
the synchronizable part of what alpha holds at the change's path. -/
theorem oneWay_beta_mirrors_alpha (mode : Mode) (hm : mode = .oneWaySafe ∨ mode = .oneWayReplica)
    (A alpha beta : Option Entry) :
    ∀ c ∈ (Reconcile A alpha beta mode).beta, c.new = osync (getPath alpha c.path) := by
  intro c hc
  obtain ⟨rel, hp, hn⟩ := reconcile_oneWay_new mode hm [] A alpha beta c hc
  simp only [List.nil_append] at hp
  rw [hp]; exact hn

/-- The alpha side is protected in the same way in *every* mode (vacuously in
the one-way modes, which plan nothing for alpha). -/
theorem alpha_unmodified_all_modes (mode : Mode) (A alpha beta : Option Entry) :
    ∀ c ∈ (Reconcile A alpha beta mode).alpha,
      SameTree c.old (getPath alpha c.path) ∧
      ∀ q, c.path <+: q → pget alpha q = none ∨ pget alpha q = pget A q :=
  protected_no_loss (reconcile_protects_alpha mode [] A alpha beta A (Or.inl rfl))

/-! Non-vacuity: plans with beta changes exist (see also the evidence
histogram of the stream: tens of thousands of plans with beta changes in every
mode). -/
example : (Reconcile (some exampleFile1) (some exampleFile2) (some exampleFile1) .twoWaySafe).beta ≠ [] := by
  rw [example_modification_propagates]; simp

-- TODO theorem readOnly_refuses (DESIGN §8 C02): a one-way alpha endpoint refuses Stage/Transition and
--   leaves its root unchanged — endpoint-level model (`Model/PollWatch.Endpoint`), belongs to the
--   session-level streams, not to the reconciliation core.

end Mutagen.Properties.C02
