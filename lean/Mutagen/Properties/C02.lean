import Mutagen.Proofs.Reconcile
import Mutagen.Proofs.StagingReadOnly
/-!
# C02 — directional modes respect their direction and protect the right side

Theorems about the executable model `Mutagen.Model.Reconcile` of
`reconcile.go` (tied to `core.Reconcile` by the C02 correspondence stream, all
four modes). Helper lemmas live in `Mutagen.Proofs.Reconcile`. All statements
hold for arbitrary trees (no validity hypotheses).
-/
namespace Mutagen.Properties.C02
open Mutagen.Model

/-- In both one-way modes the plan never contains a change for alpha. -/
theorem oneWay_no_alpha_changes (A alpha beta : Option Entry) :
    (Reconcile A alpha beta .oneWaySafe).alpha = [] ∧ (Reconcile A alpha beta .oneWayReplica).alpha = [] :=
  ⟨reconcile_oneWay_alpha .oneWaySafe (Or.inl rfl) [] A alpha beta,
   reconcile_oneWay_alpha .oneWayReplica (Or.inr rfl) [] A alpha beta⟩

/-- One-way-safe never deletes or overwrites beta content created or modified
since the last synchronization: for every planned beta change, `Old`
describes what beta holds there and every entry existing on beta at or below
the change's path is recorded identically in the last-synchronized tree. -/
theorem oneWaySafe_beta_unmodified (A alpha beta : Option Entry) :
    ∀ c ∈ (Reconcile A alpha beta .oneWaySafe).beta,
      SameTree c.old (getPath beta c.path) ∧
      ∀ q, c.path <+: q → pget beta q = none ∨ pget beta q = pget A q :=
  protected_no_loss (reconcile_protects_beta .oneWaySafe rfl [] A alpha beta A (Or.inl rfl))

/-- Two-way-resolved never deletes or overwrites alpha content created or
modified since the last synchronization. -/
theorem twoWayResolved_alpha_unmodified (A alpha beta : Option Entry) :
    ∀ c ∈ (Reconcile A alpha beta .twoWayResolved).alpha,
      SameTree c.old (getPath alpha c.path) ∧
      ∀ q, c.path <+: q → pget alpha q = none ∨ pget alpha q = pget A q :=
  protected_no_loss (reconcile_protects_alpha .twoWayResolved [] A alpha beta A (Or.inl rfl))

/-- Direction: in both one-way modes every planned beta change installs exactly
the synchronizable part of what alpha holds at the change's path. -/
theorem oneWay_beta_mirrors_alpha (mode : Mode) (hm : mode = .oneWaySafe ∨ mode = .oneWayReplica)
    (A alpha beta : Option Entry) :
    ∀ c ∈ (Reconcile A alpha beta mode).beta, c.new = osync (getPath alpha c.path) := by
  intro c hc
  obtain ⟨rel, hp, hn⟩ := reconcile_oneWay_new mode hm [] A alpha beta c hc
  simp only [List.nil_append] at hp
  rw [hp]; exact hn

/-- The alpha side is protected in the same way in *every* mode (vacuously in
the one-way modes, which plan nothing for alpha). -/
theorem alpha_unmodified_all_modes (mode : Mode) (A alpha beta : Option Entry) :
    ∀ c ∈ (Reconcile A alpha beta mode).alpha,
      SameTree c.old (getPath alpha c.path) ∧
      ∀ q, c.path <+: q → pget alpha q = none ∨ pget alpha q = pget A q :=
  protected_no_loss (reconcile_protects_alpha mode [] A alpha beta A (Or.inl rfl))

/-! Non-vacuity: plans with beta changes exist (see also the evidence
histogram of the stream: tens of thousands of plans with beta changes in every
mode). -/
example : (Reconcile (some exampleFile1) (some exampleFile2) (some exampleFile1) .twoWaySafe).beta ≠ [] := by
  rw [example_modification_propagates]; simp

/-! ## The endpoint half: a one-way alpha endpoint is read-only

Model: `Mutagen.Model.Staging` (`endpoint/local`: `NewEndpoint` sets
`readOnly := alpha && unidirectional`; `Stage` and `Transition` test it first).
Tied to the code by the C41 stream and, under this check, by its `-ro` variant
(every case a read-only endpoint; Go oracle: every Stage/Transition answers the
read-only error and the root walk is unchanged). -/

/-- A read-only endpoint refuses every `Stage` and every `Transition`,
whatever the arguments and the call state, and the refusal changes nothing
(not the root, not the staging store, not the scan flags). -/
theorem readOnly_refuses (s : Staging.St) (hro : s.readOnly = true) :
    (∀ paths digests hint, Staging.stage s paths digests hint = (s, .err .readOnly)) ∧
    (∀ ts, Staging.transition s ts = (s, .err .readOnly)) :=
  ⟨Proofs.Staging.stage_readOnly s hro, Proofs.Staging.transition_readOnly s hro⟩

/-- History form: after *any* sequence of endpoint calls (scans, staging
requests, supplied content, transitions) interleaved with edits of the root by
other programs, a read-only endpoint is still read-only and its root is the
initial root with exactly the other programs' edits applied — the endpoint
itself never wrote to it. -/
theorem readOnly_root_untouched (s : Staging.St) (hro : s.readOnly = true) (ops : List Staging.Op) :
    (Staging.runOps s ops).readOnly = true ∧
    (Staging.runOps s ops).root = (Proofs.Staging.editsOf ops).foldl Staging.applyEdit s.root :=
  Proofs.Staging.runOps_readOnly ops s hro

/-- With no outside edits the root is literally unchanged. -/
theorem readOnly_root_unchanged (s : Staging.St) (hro : s.readOnly = true) (ops : List Staging.Op)
    (hne : Proofs.Staging.editsOf ops = []) : (Staging.runOps s ops).root = s.root := by
  rw [(readOnly_root_untouched s hro ops).2, hne]; rfl

/-! Non-vacuity: the initial state of a read-only endpoint satisfies the
hypothesis, and a writable endpoint in the same state answers differently (so the
refusal is due to the flag, not a property of the model's `stage`/`transition` as such). -/
example : (Staging.init 0 true []).readOnly = true := rfl
example : Staging.transition (Staging.init 0 false []) [] = (Staging.init 0 false [], .err .noScan) := rfl
example : (Staging.stage (Staging.init 0 false []) [] [] (fun _ => none)).2 = .ok [] := rfl

end Mutagen.Properties.C02
