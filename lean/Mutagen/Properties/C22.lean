import Mutagen.Proofs.Framing
/-!
# C22 — control-stream framing delivers every flushed message intact

Property theorems only (helper lemmas and the flat specification the chunked
reader model is refined to: `Mutagen.Proofs.Framing`).

A reader `⟨cs⟩ : Src` delivers the fragments `cs` one `Read` at a time and then
EOF; `cs.flatten` is the byte stream. `frames marshal ms` is what the encoder
writes for the messages `ms`; `Codec marshal um ms` says that `um` inverts
`marshal` on `ms` and that no payload exceeds the decoder's limit.
-/
namespace Mutagen.Properties.C22
open Mutagen.Model.Framing Mutagen.Proofs.Framing

/-- Varint round trip, through any fragmentation and whatever follows:
`ReadUvarint` returns the value `AppendVarint` encoded and consumes exactly its bytes. -/
theorem varint_roundtrip (v : Nat) (hv : v < 2 ^ 64) (cs : List Bytes) (tail : Bytes)
    (h : cs.flatten = appendVarint v ++ tail) :
    (readUvarint ⟨cs⟩).2 = .ok v ∧ (readUvarint ⟨cs⟩).1.chunks.flatten = tail := by
  have := readUvarintLoop_flat maxVarintLen64 0 0 0 cs
  rw [h, readUvarintF_varint v tail hv] at this
  simp only [Prod.mk.injEq] at this
  exact ⟨this.2, this.1⟩

/-- decode ∘ encode = id for message sequences, for every fragmentation of the
byte stream: the decoder returns exactly the messages written, in order, then
a clean EOF, and leaves nothing undecoded. -/
theorem decode_encode {α : Type} (marshal : α → Bytes) (um : Bytes → Option α) (ms : List α)
    (hc : Codec marshal um ms) (cs : List Bytes) (h : cs.flatten = frames marshal ms) :
    (decodeAll um ⟨cs⟩).1 = ms ∧ (decodeAll um ⟨cs⟩).2.1 = .lenEof ∧
    (decodeAll um ⟨cs⟩).2.2.chunks.flatten = [] := by
  have := decodeAll_flat um cs
  rw [h, decodeAllF_frames marshal um ms hc] at this
  simp only [Prod.mk.injEq] at this
  exact this

/-- Fragmentation is irrelevant — for *arbitrary* byte streams (valid, truncated,
malformed): two readers delivering the same bytes in different fragments yield
the same messages, the same final error and the same undecoded remainder. -/
theorem fragmentation_irrelevant {α : Type} (um : Bytes → Option α) (cs cs' : List Bytes)
    (h : cs.flatten = cs'.flatten) :
    (decodeAll um ⟨cs⟩).1 = (decodeAll um ⟨cs'⟩).1 ∧
    (decodeAll um ⟨cs⟩).2.1 = (decodeAll um ⟨cs'⟩).2.1 ∧
    (decodeAll um ⟨cs⟩).2.2.chunks.flatten = (decodeAll um ⟨cs'⟩).2.2.chunks.flatten := by
  have a := decodeAll_flat um cs
  have b := decodeAll_flat um cs'
  rw [h] at a
  have := a.trans b.symm
  simp only [Prod.mk.injEq] at this
  exact this

/-- The same for a single `Decode` call. -/
theorem fragmentation_irrelevant_decode {α : Type} (um : Bytes → Option α) (cs cs' : List Bytes)
    (h : cs.flatten = cs'.flatten) :
    (decode um ⟨cs⟩).2 = (decode um ⟨cs'⟩).2 ∧
    (decode um ⟨cs⟩).1.chunks.flatten = (decode um ⟨cs'⟩).1.chunks.flatten := by
  have a := decode_flat um cs
  have b := decode_flat um cs'
  rw [h] at a
  have := a.trans b.symm
  simp only [Prod.mk.injEq] at this
  exact ⟨this.2, this.1⟩

/-- After a flush nothing is left in any layer of the pipeline and the wire
carries exactly the frames of every message encoded so far — for every
interleaving of `Encode` and `Flush` before it. -/
theorem flush_delivers_everything {α : Type} (marshal : α → Bytes) (ops : List (Op α)) :
    let p := (run marshal TxPipe.empty ops).flush
    p.2 = none ∧ p.1.pending = [] ∧ p.1.wire = frames marshal (encoded ops) := by
  have h := run_conserves marshal ops TxPipe.empty
  refine ⟨by simp [flush_eq], by simp [flush_eq, TxPipe.pending], ?_⟩
  simpa [flush_eq, TxPipe.empty, TxPipe.pending] using h

/-- After-flush prefix decodability with no residue: whatever was encoded before
a flush can be decoded from what the wire has delivered at that point, however
it is fragmented, without waiting for further data (`later` is whatever arrives
afterwards, possibly nothing), and not one delivered byte is left undecoded. -/
theorem flush_prefix_decodable {α : Type} (marshal : α → Bytes) (um : Bytes → Option α)
    (ops : List (Op α)) (hc : Codec marshal um (encoded ops)) (cs later : List Bytes)
    (h : cs.flatten = (run marshal TxPipe.empty ops).flush.1.wire) :
    let r := decodeN um (encoded ops).length ⟨cs ++ later⟩ []
    r.1 = encoded ops ∧ r.2.1 = none ∧ r.2.2.chunks.flatten = later.flatten := by
  have hw := (flush_delivers_everything marshal ops).2.2
  have := decodeN_flat um (encoded ops).length (cs ++ later) []
  rw [List.flatten_append, h, hw, decodeNF_frames marshal um _ _ _ hc] at this
  simp only [Prod.mk.injEq, List.reverse_nil, List.nil_append] at this
  exact this

/-- Oversize declared lengths are rejected: if the length prefix read from the
stream exceeds `protobufDecoderMaximumAllowedMessageSize` (regenerated from the
Go source), `Decode` fails without reading the payload. -/
theorem oversize_rejected {α : Type} (um : Bytes → Option α) (src src' : Src) (n : Nat)
    (h : readUvarint src = (src', .ok n)) (hn : n > maxMessageSize) :
    decode um src = (src', .error .tooLarge) := by
  simp [decode, h, hn]

/-- … in particular for every encodable length above the limit, whatever follows
and however the stream is fragmented; and the boundary is exact: a declared
length of at most the limit is never rejected as too large. -/
theorem oversize_rejected_exact {α : Type} (um : Bytes → Option α) (n : Nat) (hn : n < 2 ^ 64)
    (cs : List Bytes) (tail : Bytes) (h : cs.flatten = appendVarint n ++ tail) :
    ((decode um ⟨cs⟩).2 = .error .tooLarge ↔ n > maxMessageSize) := by
  have hv := varint_roundtrip n hn cs tail h
  cases hr : readUvarint ⟨cs⟩ with
  | mk src' res =>
    rw [hr] at hv
    simp only at hv
    obtain ⟨rfl, _⟩ := hv
    by_cases hgt : n > maxMessageSize
    · simp [oversize_rejected um _ _ _ hr hgt, hgt]
    · simp only [decode, hr, hgt, if_false, iff_false]
      cases hf : src'.readFull n with
      | mk s2 r2 =>
        cases r2 with
        | error e => cases e <;> simp
        | ok mb => cases hu : um mb <;> simp [hu]

/-- The limit the model uses is the constant of the code, and every length the
decoder accepts fits a `uint64`/`int`. -/
theorem limit_value : maxMessageSize = 100 * 1024 * 1024 ∧ maxMessageSize < 2 ^ 63 := by decide

/-- The multi-flusher flushes in the order given and halts at the first failure:
if the flushers `fs₁` succeed and the next one fails with `e`, the result is
`e` and none of the later flushers `fs₂` has run. -/
theorem multiFlush_halts {σ ε : Type} (fs₁ fs₂ : List (σ → σ × Option ε)) (f : σ → σ × Option ε)
    (s t t' : σ) (e : ε) (h₁ : multiFlush fs₁ s = (t, none)) (hf : f t = (t', some e)) :
    multiFlush (fs₁ ++ f :: fs₂) s = (t', some e) := by
  rw [multiFlush_append_ok fs₁ _ s t h₁]
  simp [multiFlush, hf]

/-- If every flusher succeeds, all have run, in order. -/
theorem multiFlush_all {σ ε : Type} (fs₁ fs₂ : List (σ → σ × Option ε)) (s t : σ)
    (h₁ : multiFlush fs₁ s = (t, none)) : multiFlush (fs₁ ++ fs₂) s = multiFlush fs₂ t :=
  multiFlush_append_ok fs₁ fs₂ s t h₁

/-- Non-vacuity / the order matters: flushing the layers bottom-up instead of
top-down leaves a written frame inside the pipeline. -/
example :
    (multiFlush [flushCompressedOutbound, flushCompressor, flushOutbound]
      (TxPipe.empty.write [1, 2, 3])).1.wire = [] ∧
    ((TxPipe.empty.write [1, 2, 3]).flush).1.wire = [1, 2, 3] := by decide

/-- Non-vacuity of the round trip: three concrete messages (one empty) with the
identity codec, delivered in awkward fragments. -/
example : (decodeAll (fun b => some b) ⟨[[1], [0xaa, 0], [2, 0xbb], [0xcc]]⟩).1
    = [[0xaa], [], [0xbb, 0xcc]] := by
  simp [decodeAll, decodeMany, decode, readUvarint, readUvarintLoop, Src.readByte, readByteL,
    Src.readFull, readFullL, Src.size, maxVarintLen64, maxMessageSize,
    Mutagen.Facts.encodingProtobufDecoderMaximumAllowedMessageSize]

end Mutagen.Properties.C22
