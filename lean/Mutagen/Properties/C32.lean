import Mutagen.Proofs.Prompting
/-!
# C32 — prompting is serialized, ends at unregistration, and hides secrets

Property theorems only (helper lemmas live in `Mutagen.Proofs.Prompting`).

The registry theorems are about `Reachable ops s`: `s` is reached from the
initial state of an arbitrary finite set of threads `ops` (each a call of
`RegisterPrompterWithIdentifier`, `UnregisterPrompter`, `Message` or `Prompt` on
an arbitrary identifier) by **any** sequence of enabled atomic steps of any
threads — every interleaving. A *holder* index identifies one registration,
i.e. one prompter object. Since every state that follows a reachable state is
itself reachable, a statement about all reachable states in which an
unregistration has returned is a statement about everything that happens
afterwards.
-/
namespace Mutagen.Properties.C32
open Mutagen.Model.Prompting

/-- `response_mode_exact`: for every prompt (any byte string) the response is
echoed iff the prompt ends with one of the suffixes extracted from
`response_mode.go`; in every other case it is read as a secret. -/
theorem response_mode_exact (prompt : Bytes) :
    (determineResponseMode prompt = .echo ↔ ∃ s ∈ echoedPromptSuffixes, s <:+ prompt) ∧
    (determineResponseMode prompt ≠ .echo → determineResponseMode prompt = .secret) := by
  refine ⟨responseLoop_echo prompt _, ?_⟩
  intro h
  rcases responseLoop_cases prompt echoedPromptSuffixes with h' | h'
  · exact absurd h' h
  · exact h'

/-- The extracted suffix table is the list of yes/no host-key confirmations the
statement refers to (a changed table breaks this theorem and must be reviewed). -/
theorem echoed_suffixes_are_the_known_confirmations :
    Mutagen.Facts.echoedPromptSuffixes =
      ["(yes/no)? ", "(yes/no): ", "(yes/no/[fingerprint])? ", "Please type 'yes', 'no' or the fingerprint: "] := by
  decide

/-- The invariant holds in every reachable state. -/
theorem invariant_reachable (ops : List Op) (s : State) (h : Reachable ops s) : Inv s := by
  induction h with
  | init =>
    refine ⟨rfl, ?_, ?_, ?_, ?_, ?_, ?_, ?_, ?_, ?_, ?_⟩
    · intro t th ht
      simp only [init, List.getElem?_map, Option.map_eq_some_iff] at ht
      obtain ⟨op, _, rfl⟩ := ht
      exact ⟨by simp, by simp, by simp, by simp, by simp⟩
    · intro id h hm; simp [init] at hm
    · intro id h1 h2 hm; simp [init] at hm
    · intro id1 id2 h hm; simp [init] at hm
    · intro t1 t2 x1 x2 h hx1 _ o1
      simp only [init, List.getElem?_map, Option.map_eq_some_iff] at hx1
      obtain ⟨op, _, rfl⟩ := hx1
      obtain ⟨e, _⟩ := o1; simp at e
    · intro t x h hd hx o
      simp only [init, List.getElem?_map, Option.map_eq_some_iff] at hx
      obtain ⟨op, _, rfl⟩ := hx
      obtain ⟨e, _⟩ := o; simp at e
    · intro h hd hh; simp [init] at hh
    · intro t1 t2 x1 x2 h hx1 _ o1
      simp only [init, List.getElem?_map, Option.map_eq_some_iff] at hx1
      obtain ⟨op, _, rfl⟩ := hx1
      obtain ⟨e, _⟩ := o1; simp at e
    · intro t x h hx o
      simp only [init, List.getElem?_map, Option.map_eq_some_iff] at hx
      obtain ⟨op, _, rfl⟩ := hx
      obtain ⟨e, _⟩ := o; simp at e
    · intro h hd hh; simp [init] at hh
  | step _ hstep ih =>
    cases hstep with
    | tau t ht => exact ih.tau ht
    | obs e he => exact ih.obs he

/-- `prompter_mutex`: in every reachable state, a prompter (the object carried
by holder `h`) is inside at most one invocation: two threads that are both
executing its method are the same thread. -/
theorem prompter_mutex (ops : List Op) (s : State) (hr : Reachable ops s)
    (t1 t2 : Nat) (th1 th2 : Thread) (h : Nat)
    (h1 : s.threads[t1]? = some th1) (h2 : s.threads[t2]? = some th2)
    (c1 : th1.pc = .calling ∧ th1.holder = some h) (c2 : th2.pc = .calling ∧ th2.holder = some h) :
    t1 = t2 :=
  (invariant_reachable ops s hr).ownUniq t1 t2 th1 th2 h h1 h2
    ⟨c1.2, by simp [c1.1]⟩ ⟨c2.2, by simp [c2.1]⟩

/-- `no_call_after_unregister`: once an `UnregisterPrompter` has completed its
work for holder `h` (result `ok`: it is about to return or has returned), no
thread holds that prompter, is inside its method, or is about to give it back —
in this state and, the state being an arbitrary reachable one, in every state
thereafter. -/
theorem no_call_after_unregister (ops : List Op) (s : State) (hr : Reachable ops s)
    (tu : Nat) (thu : Thread) (hu : s.threads[tu]? = some thu)
    (hop : ∃ id, thu.op = .unreg id) (hres : thu.res = some .ok) :
    ∃ h, thu.holder = some h ∧
      ∀ (t : Nat) (th : Thread), s.threads[t]? = some th → th.holder = some h →
        th.pc ≠ .holding ∧ th.pc ≠ .calling ∧ th.pc ≠ .returning := by
  have hinv := invariant_reachable ops s hr
  obtain ⟨h, hd, hh, hhd, hclosed⟩ := (hinv.threadOK tu thu hu).unregDone hop hres
  refine ⟨h, hh, ?_⟩
  intro t th ht hth
  have key : ∀ pc, th.pc = pc → (pc = .holding ∨ pc = .calling ∨ pc = .returning ∨ pc = .uclose) → False := by
    intro pc hpc hcase
    have := (hinv.ownExcl t th h hd ht ⟨hth, by rw [hpc]; exact hcase⟩ hhd).2
    rw [hclosed] at this; cases this
  exact ⟨fun e => key _ e (by simp), fun e => key _ e (by simp), fun e => key _ e (by simp)⟩

/-- In particular the start of an invocation is not an enabled step once the
unregistration of that prompter has completed. -/
theorem no_call_start_after_unregister (ops : List Op) (s s' : State) (hr : Reachable ops s)
    (tu : Nat) (thu : Thread) (hu : s.threads[tu]? = some thu)
    (hop : ∃ id, thu.op = .unreg id) (hres : thu.res = some .ok)
    (t : Nat) (th : Thread) (ht : s.threads[t]? = some th) (hsame : th.holder = thu.holder) :
    obs s (.callStart t) ≠ some s' := by
  obtain ⟨h, hh, hall⟩ := no_call_after_unregister ops s hr tu thu hu hop hres
  intro hstep
  simp only [obs, ht] at hstep
  split at hstep
  · rename_i hpc
    exact (hall t th ht (by rw [hsame, hh])).1 hpc
  · cases hstep

/-- The channel operations never panic: no send on a closed holder, no double close. -/
theorem never_crashes (ops : List Op) (s : State) (hr : Reachable ops s) : s.crashed = false :=
  (invariant_reachable ops s hr).crashed

/-- A prompter that is held by a thread is not in its channel, and its holder is not closed. -/
theorem held_prompter_not_in_channel (ops : List Op) (s : State) (hr : Reachable ops s)
    (t : Nat) (th : Thread) (h : Nat) (hd : Holder) (ht : s.threads[t]? = some th)
    (hpc : th.pc = .holding ∨ th.pc = .calling ∨ th.pc = .returning ∨ th.pc = .uclose)
    (hh : th.holder = some h) (hhd : s.holders[h]? = some hd) :
    hd.token = false ∧ hd.closed = false :=
  (invariant_reachable ops s hr).ownExcl t th h hd ht ⟨hh, hpc⟩ hhd

/-! Non-vacuity: the model produces (and refuses) the expected traces. -/

/-- A call overlapping an unregistration: the call runs first, then the unregistration returns. -/
example : (accepts [.reg "p", .call "p" false false, .unreg "p"]
    [.invoke 0, .ret 0 .ok, .invoke 1, .invoke 2, .callStart 1, .callEnd 1, .ret 1 .ok, .ret 2 .ok]).isOk = true := by
  decide

/-- … but a call that starts after the unregistration returned is not producible. -/
example : (accepts [.reg "p", .call "p" false false, .unreg "p"]
    [.invoke 0, .ret 0 .ok, .invoke 1, .invoke 2, .ret 2 .ok, .callStart 1, .callEnd 1, .ret 1 .ok]).isOk = false := by
  decide

/-- Two overlapping invocations of the same prompter are not producible. -/
example : (accepts [.reg "p", .call "p" false false, .call "p" true false]
    [.invoke 0, .ret 0 .ok, .invoke 1, .invoke 2, .callStart 1, .callStart 2]).isOk = false := by
  decide

end Mutagen.Properties.C32
