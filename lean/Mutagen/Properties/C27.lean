import Mutagen.Model.Atomic
/-!
# C27 — persistent session files are replaced atomically

Property theorems only (helper lemmas live in `Mutagen.Proofs.Atomic`).
-/
namespace Mutagen.Properties.C27
open Mutagen.Model.Atomic

/-- A failing marshal callback performs no file-system operation at all. -/
theorem marshal_failure_no_ops (tmp path : Name) (data : Content) (f : Faults)
    (h : f.marshalFails = true) : marshalAndSave tmp path data f = ([], .errMarshal) := by
  simp [marshalAndSave, h]

end Mutagen.Properties.C27
