import Mutagen.Proofs.Atomic
/-!
# C27 — persistent session files are replaced atomically

Property theorems only (helper lemmas live in `Mutagen.Proofs.Atomic`).

Reading guide: `writeFileAtomic tmp path data perm f` is the pair (events
performed, reported result) of `filesystem.WriteFileAtomic(path, data, perm)`
when the standard library picked the temporary name `tmp` and the operating
system behaved as described by the fault script `f`. `replay d es` is the
directory after the events `es`; a crash after `k` completed file-system
operations leaves `replay d (es.take k)`. `tmp ≠ path` is guaranteed by the
code (the temporary name carries the atomic-write prefix and a random number
and is created with `O_EXCL`).
-/
namespace Mutagen.Properties.C27
open Mutagen.Model.Atomic Mutagen.Proofs.Atomic

/-- **Atomicity under crashes.** For every old directory, every content and
mode, every fault script and every crash point, the target name holds either
exactly what it held before (or is still absent) or exactly the complete new
file — never anything else. -/
theorem atomic_old_or_new (d : Dir) (tmp path : Name) (data : Content) (perm : Nat) (f : Faults)
    (hne : tmp ≠ path) (k : Nat) :
    (replay d ((writeFileAtomic tmp path data perm f).1.take k)).get path = d.get path ∨
    (replay d ((writeFileAtomic tmp path data perm f).1.take k)).get path
      = some { content := data, mode := perm } := by
  obtain ⟨hfail, hok⟩ := writeFileAtomic_shape tmp path data perm f
  by_cases hres : (writeFileAtomic tmp path data perm f).2 = .ok
  · obtain ⟨A, hA, hharm, hnew⟩ := hok hres
    rw [hA]
    by_cases hk : k ≤ A.length
    · left
      rw [List.take_append_of_le_length hk]
      exact replay_harmless tmp _ (fun e he => hharm e (List.mem_of_mem_take he)) d path (Ne.symm hne)
    · right
      rw [List.take_of_length_le (by simp; omega), replay_append]
      exact (rename_effect (replay d A) tmp path _ (hnew d) hne).1
  · left
    exact replay_harmless tmp _ (fun e he => hfail hres e (List.mem_of_mem_take he)) d path (Ne.symm hne)

/-- The same for `encoding.MarshalAndSave` (mode 0600). -/
theorem marshalAndSave_old_or_new (d : Dir) (tmp path : Name) (data : Content) (f : Faults)
    (hne : tmp ≠ path) (k : Nat) :
    (replay d ((marshalAndSave tmp path data f).1.take k)).get path = d.get path ∨
    (replay d ((marshalAndSave tmp path data f).1.take k)).get path
      = some { content := data, mode := 0o600 } := by
  unfold marshalAndSave
  split
  · left; simp [replay]
  · exact atomic_old_or_new d tmp path data 0o600 f hne k

/-- A reported failure leaves the target exactly as it was. -/
theorem failure_leaves_old (d : Dir) (tmp path : Name) (data : Content) (perm : Nat) (f : Faults)
    (hne : tmp ≠ path) (hres : (writeFileAtomic tmp path data perm f).2 ≠ .ok) :
    (replay d (writeFileAtomic tmp path data perm f).1).get path = d.get path :=
  replay_harmless tmp _ ((writeFileAtomic_shape tmp path data perm f).1 hres) d path (Ne.symm hne)

/-- Success installs the complete new file and leaves no temporary file. -/
theorem success_installs_new (d : Dir) (tmp path : Name) (data : Content) (perm : Nat) (f : Faults)
    (hne : tmp ≠ path) (hres : (writeFileAtomic tmp path data perm f).2 = .ok) :
    (replay d (writeFileAtomic tmp path data perm f).1).get path = some { content := data, mode := perm } ∧
    (replay d (writeFileAtomic tmp path data perm f).1).get tmp = none := by
  obtain ⟨A, hA, _, hnew⟩ := (writeFileAtomic_shape tmp path data perm f).2 hres
  rw [hA, replay_append]
  exact ⟨(rename_effect (replay d A) tmp path _ (hnew d) hne).1, (rename_effect (replay d A) tmp path _ (hnew d) hne).2.1⟩

/-- **No stray files.** At every point of the write (crash, failure or success)
every name other than the target and the temporary name holds what it held
before: the only name that can appear besides the target is the temporary one. -/
theorem only_target_and_temporary_touched (d : Dir) (tmp path : Name) (data : Content) (perm : Nat)
    (f : Faults) (k : Nat) (n : Name) (hn : n ≠ tmp) (hp : n ≠ path) :
    (replay d ((writeFileAtomic tmp path data perm f).1.take k)).get n = d.get n := by
  obtain ⟨hfail, hok⟩ := writeFileAtomic_shape tmp path data perm f
  by_cases hres : (writeFileAtomic tmp path data perm f).2 = .ok
  · obtain ⟨A, hA, hharm, hnew⟩ := hok hres
    rw [hA]
    by_cases hk : k ≤ A.length
    · rw [List.take_append_of_le_length hk]
      exact replay_harmless tmp _ (fun e he => hharm e (List.mem_of_mem_take he)) d n hn
    · rw [List.take_of_length_le (by simp; omega), replay_append]
      by_cases hne : tmp = path
      · -- renaming a file onto itself changes nothing
        subst hne
        have h1 := replay_harmless tmp A hharm d n hn
        simp only [replay, List.foldl_cons, List.foldl_nil, Event.apply, if_true, Op.apply] at hnew ⊢
        rw [hnew d]
        simp only
        rw [get_set_other _ _ _ _ hn, get_erase_other _ _ _ hn]
        exact h1
      · have h2 := (rename_effect (replay d A) tmp path _ (hnew d) hne).2.2 n hn hp
        rw [h2]
        exact replay_harmless tmp A hharm d n hn
  · exact replay_harmless tmp _ (fun e he => hfail hres e (List.mem_of_mem_take he)) d n hn

/-- After a reported failure, the only name whose entry may differ from before
is the temporary name; and when the cleanup `os.Remove` did not fail as well,
nothing at all is left behind (the temporary name was fresh). -/
theorem failure_no_stray (d : Dir) (tmp path : Name) (data : Content) (perm : Nat) (f : Faults)
    (hres : (writeFileAtomic tmp path data perm f).2 ≠ .ok) :
    (∀ n, n ≠ tmp → (replay d (writeFileAtomic tmp path data perm f).1).get n = d.get n) ∧
    (f.removeFails = false → d.get tmp = none →
      ∀ n, (replay d (writeFileAtomic tmp path data perm f).1).get n = d.get n) := by
  have h1 : ∀ n, n ≠ tmp → (replay d (writeFileAtomic tmp path data perm f).1).get n = d.get n :=
    fun n hn => replay_harmless tmp _ ((writeFileAtomic_shape tmp path data perm f).1 hres) d n hn
  refine ⟨h1, ?_⟩
  intro hrm hfresh n
  by_cases hn : n = tmp
  · subst hn
    rw [writeFileAtomic_cleanup n path data perm f d hres hrm hfresh, hfresh]
  · exact h1 n hn

/-- The temporary names used by the atomic write carry the Mutagen temporary
prefix (both constants regenerated from the Go source), which scans ignore. -/
theorem temporary_names_ignored (suffix : List Char) : isTemporary (tmpName suffix) = true := by
  have h : Mutagen.Facts.atomicWriteTemporaryNamePrefix.toList
      = Mutagen.Facts.atomicTemporaryNamePrefix.toList ++ "atomic-write".toList := by decide
  simp [isTemporary, tmpName, h, List.append_assoc]

/-- The reported result names the first step that failed; success is reported
exactly when no step failed. -/
theorem result_reports_first_failure (tmp path : Name) (data : Content) (perm : Nat) (f : Faults) :
    (writeFileAtomic tmp path data perm f).2 =
      if f.createFails then .errCreate
      else if !(fileWrite tmp (data.length + 1) data f.writeScript).2 then .errWrite
      else if f.closeFails then .errClose
      else if f.chmodFails then .errChmod
      else if f.renameFails then .errRename
      else .ok :=
  writeFileAtomic_result tmp path data perm f

/-- Without faults the write succeeds. -/
theorem no_fault_succeeds (tmp path : Name) (data : Content) (perm : Nat) :
    (writeFileAtomic tmp path data perm {}).2 = .ok := by
  rw [writeFileAtomic_result]
  simp [fileWrite]

/-- The fuel of the write loop is never the reason it stops. -/
theorem write_loop_fuel (tmp : Name) (fuel : Nat) (data : Content) (script : List (Option Nat))
    (h : data.length < fuel) :
    fileWrite tmp fuel data script = fileWrite tmp (data.length + 1) data script :=
  fileWrite_fuel tmp fuel (data.length + 1) data script h (by omega)

/-- A failing marshal callback performs no file-system operation at all. -/
theorem marshal_failure_no_ops (tmp path : Name) (data : Content) (f : Faults)
    (h : f.marshalFails = true) : marshalAndSave tmp path data f = ([], .errMarshal) := by
  simp [marshalAndSave, h]

/-! ## Non-vacuity -/

/-- A partial write (3 of 5 bytes, then an error) followed by a failing cleanup:
the target still holds the old content at the end, and the temporary file holds
the partial content. -/
example :
    let d : Dir := [("target".toList, { content := [1, 2], mode := 0o640 })]
    let f : Faults := { writeScript := [some 3, none], removeFails := true }
    let r := writeFileAtomic (tmpName ['7']) "target".toList [9, 8, 7, 6, 5] 0o644 f
    r.2 = .errWrite ∧ (replay d r.1).get "target".toList = some { content := [1, 2], mode := 0o640 } ∧
      (replay d r.1).get (tmpName ['7']) = some { content := [9, 8, 7], mode := 0o600 } := by
  decide

end Mutagen.Properties.C27
