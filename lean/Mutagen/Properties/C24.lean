import Mutagen.Proofs.MuxNet
/-!
# C24 — conforming multiplexers never tear each other down

`Net` (Model/Mux.lean) is the pair of multiplexers with one FIFO of wire
messages per direction; `Action` (Model/MuxSys.lean) is every atomic step the
program, the background goroutines and the carrier can take: the critical
sections of OpenStream, AcceptStream (including stale and aborted accepts),
Read with any buffer size (including 0), Write (including empty and chunked),
CloseWrite, Close (split at its blocking points), deadlines, the flushes of the
enqueue goroutine in any order, the delivery of one message to a reader
(`Side.deliver`: the validation of `Multiplexer.read`, check by check) and
`Multiplexer.Close`.

The model describes the code with `fixes/C24.patch` applied (see the header of
Model/Mux.lean); the unrepaired code violates `no_protocol_violation`
(zero-length `Read` ⇒ zero-valued window increment; concurrent `OpenStream` ⇒
open messages out of identifier order).

Invariant (`Inv`, Proofs/MuxInv.lean), per stream identifier and direction:
* window accounting — in-flight data + buffered data + pending and in-flight
  window increments + sender window ≤ receive window ≤ 2^64-1 (`Flow.window`;
  equality is not inductive: a local close discards pending credit);
* every in-flight or pending increment is positive (`Flow.incr_pos/pend_pos`);
* nothing behind a close, no data behind a close-write, at most one of each
  (`Flow.close_last/cw_data/cw_once`);
* open first, accept (or a lone close) first in the other direction, accept at
  most once and never after a close (`Unseen.first`, `PerId.o_first/acc_once`);
* open identifiers strictly increasing, of the sender's parity, below the
  sender's next identifier and above the receiver's high-water mark (`Dir`).
-/
namespace Mutagen.Properties.C24
open Mutagen.Model.Mux

/-- The numbering of the message kinds (regenerated from protocol.go) is
injective and within the range the reader accepts: a frame produced by
`Msg.toFrame` decodes to the message it came from. -/
theorem frame_roundtrip (m : Msg) : m.toFrame.toMsg = some m := by
  cases m <;> simp [Msg.toFrame, Frame.toMsg, Kind.ofWire, Kind.wire, Mutagen.Facts.muxKindClose,
    Mutagen.Facts.muxKindHeartbeat, Mutagen.Facts.muxKindOpen, Mutagen.Facts.muxKindAccept,
    Mutagen.Facts.muxKindData, Mutagen.Facts.muxKindWindowIncrement, Mutagen.Facts.muxKindCloseWrite]

/-- The invariant holds initially (receive windows are Go `int`s, hence < 2^64). -/
theorem invariant_initially (wa ka wb kb : Int) (ha : wa ≤ maxU64) (hb : wb ≤ maxU64) :
    InvN (Net.init wa ka wb kb) :=
  InvN.init wa ka wb kb ha hb

/-- The invariant is preserved by every action that leaves both multiplexers up. -/
theorem invariant_preserved (n : Net) (h : InvN n) (hal : n.alive) (a : Action) (hal' : (n.step a).alive) :
    InvN (n.step a) :=
  h.step hal a hal'

/-- The invariant implies that the reader accepts the next in-flight message,
whatever it is. -/
theorem invariant_implies_accept (n : Net) (h : InvN n) (hal : n.alive) (w : Who) :
    (n.deliver w).2 = none :=
  h.deliver_ok hal w

/-- Both multiplexers closed. -/
def dead (n : Net) : Prop := n.a.closedMux = true ∧ n.b.closedMux = true

/-- Either both are up and the invariant holds (no internal error recorded), or
both are closed, and then the only errors ever recorded are "the carrier / the
peer went away". -/
def Good (n : Net) : Prop :=
  (n.alive ∧ InvN n ∧ n.a.internalErr = none ∧ n.b.internalErr = none) ∨
  (dead n ∧ (n.a.internalErr = none ∨ n.a.internalErr = some .carrier) ∧
    (n.b.internalErr = none ∨ n.b.internalErr = some .carrier))

theorem good_step (n : Net) (hg : Good n) (a : Action) : Good (n.step a) := by
  rcases hg with ⟨hal, hi, hea, heb⟩ | ⟨hd, hea, heb⟩
  · cases a with
    | act w s =>
      have hal' : (n.step (.act w s)).alive := by
        cases w
        · have := act_meta n.a s
          simpa [Net.step, Net.side, Net.setSide, Net.send, Net.alive, this.closedMux] using hal
        · have := act_meta n.b s
          simpa [Net.step, Net.side, Net.setSide, Net.send, Net.alive, this.closedMux] using hal
      refine Or.inl ⟨hal', hi.step hal _ hal', ?_, ?_⟩
      · cases w
        · have := act_meta n.a s
          simpa [Net.step, Net.side, Net.setSide, Net.send, this.internalErr] using hea
        · simpa [Net.step, Net.side, Net.setSide, Net.send] using hea
      · cases w
        · simpa [Net.step, Net.side, Net.setSide, Net.send] using heb
        · have := act_meta n.b s
          simpa [Net.step, Net.side, Net.setSide, Net.send, this.internalErr] using heb
    | deliver w =>
      have hok := hi.deliver_ok hal w
      cases w with
      | a =>
        simp only [Net.step, Net.deliver, Net.inbox] at hok ⊢
        cases hba : n.ba with
        | nil => exact Or.inl (by simpa [hba] using ⟨hal, hi, hea, heb⟩)
        | cons m rest =>
          simp only [hba, Net.setInbox, Net.side, hal.1, Bool.false_eq_true, ↓reduceIte] at hok ⊢
          cases hdl : n.a.deliver m with
          | error e => simp [hdl] at hok
          | ok a' =>
            have hf := deliver_fields hdl hal.1
            have hal' : Net.alive { n with ba := rest, a := a' } := ⟨by rw [hf.2.2.2.1]; exact hal.1, hal.2⟩
            refine Or.inl ?_
            simp only [hdl, Net.setSide]
            exact ⟨hal', hi.deliver_a hal m rest hba a' hdl, by rw [hf.2.2.2.2.1]; exact hea, heb⟩
      | b =>
        simp only [Net.step, Net.deliver, Net.inbox] at hok ⊢
        cases hab : n.ab with
        | nil => exact Or.inl (by simpa [hab] using ⟨hal, hi, hea, heb⟩)
        | cons m rest =>
          simp only [hab, Net.setInbox, Net.side, hal.2, Bool.false_eq_true, ↓reduceIte] at hok ⊢
          cases hdl : n.b.deliver m with
          | error e => simp [hdl] at hok
          | ok b' =>
            have hf := deliver_fields hdl hal.2
            have hal' : Net.alive { n with ab := rest, b := b' } := ⟨hal.1, by rw [hf.2.2.2.1]; exact hal.2⟩
            refine Or.inl ?_
            simp only [hdl, Net.setSide]
            exact ⟨hal', hi.deliver_b hal m rest hab b' hdl, hea, by rw [hf.2.2.2.2.1]; exact heb⟩
    | muxClose w =>
      refine Or.inr ?_
      cases w <;>
        simp [Net.step, Net.fail, Net.side, Net.setSide, Who.peer, dead, hal.1, hal.2, hea, heb]
  · refine Or.inr ?_
    cases a with
    | act w s =>
      cases w
      · have := act_meta n.a s
        simpa [Net.step, Net.side, Net.setSide, Net.send, dead, this.closedMux, this.internalErr]
          using ⟨hd, hea, heb⟩
      · have := act_meta n.b s
        simpa [Net.step, Net.side, Net.setSide, Net.send, dead, this.closedMux, this.internalErr]
          using ⟨hd, hea, heb⟩
    | deliver w =>
      cases w with
      | a =>
        simp only [Net.step, Net.deliver, Net.inbox]
        cases hba : n.ba with
        | nil => exact ⟨hd, hea, heb⟩
        | cons m rest =>
          simp only [Net.setInbox, Net.side, hd.1, ↓reduceIte]
          exact ⟨hd, hea, heb⟩
      | b =>
        simp only [Net.step, Net.deliver, Net.inbox]
        cases hab : n.ab with
        | nil => exact ⟨hd, hea, heb⟩
        | cons m rest =>
          simp only [Net.setInbox, Net.side, hd.2, ↓reduceIte]
          exact ⟨hd, hea, heb⟩
    | muxClose w =>
      have hd1 := hd.1
      have hd2 := hd.2
      cases w <;> simp [Net.step, Net.fail, Net.side, Net.setSide, Who.peer, dead, hd1, hd2, hea, heb]

theorem good_run (n : Net) (hg : Good n) (acts : List Action) : Good (n.run acts) := by
  induction acts generalizing n with
  | nil => exact hg
  | cons a as ih => exact ih _ (good_step n hg a)

theorem good_init (wa ka wb kb : Int) (ha : wa ≤ maxU64) (hb : wb ≤ maxU64) :
    Good (Net.init wa ka wb kb) :=
  Or.inl ⟨⟨rfl, rfl⟩, InvN.init wa ka wb kb ha hb, rfl, rfl⟩

/-- **C24.** For every sequence of API actions on both sides (open, accept incl.
stale/aborted, read with any buffer size incl. 0, write incl. empty, close-write,
close, deadlines, rejected opens), every order of transmission of the pending
increments / close-writes / closes and every delivery interleaving, the
receiver-side validation never rejects a delivered message. -/
theorem no_protocol_violation (wa ka wb kb : Int) (ha : wa ≤ maxU64) (hb : wb ≤ maxU64)
    (acts : List Action) (w : Who) :
    (((Net.init wa ka wb kb).run acts).deliver w).2 = none := by
  rcases good_run _ (good_init wa ka wb kb ha hb) acts with ⟨hal, hi, _, _⟩ | ⟨hd, _, _⟩
  · exact hi.deliver_ok hal w
  · cases w with
    | a =>
      simp only [Net.deliver, Net.inbox]
      cases hba : ((Net.init wa ka wb kb).run acts).ba with
      | nil => rfl
      | cons m rest => simp [Net.setInbox, Net.side, hd.1]
    | b =>
      simp only [Net.deliver, Net.inbox]
      cases hab : ((Net.init wa ka wb kb).run acts).ab with
      | nil => rfl
      | cons m rest => simp [Net.setInbox, Net.side, hd.2]

/-- **C24 (observable form).** The connection stays up until one side is
closed explicitly, and the only internal error either multiplexer ever records
is the loss of the carrier/peer — never a protocol violation. -/
theorem never_torn_down (wa ka wb kb : Int) (ha : wa ≤ maxU64) (hb : wb ≤ maxU64) (acts : List Action) :
    let n := (Net.init wa ka wb kb).run acts
    (n.a.internalErr = none ∨ n.a.internalErr = some .carrier) ∧
    (n.b.internalErr = none ∨ n.b.internalErr = some .carrier) ∧
    ((∀ a ∈ acts, ∀ w, a ≠ .muxClose w) → n.alive) := by
  intro n
  have hg := good_run _ (good_init wa ka wb kb ha hb) acts
  refine ⟨?_, ?_, ?_⟩
  · rcases hg with ⟨_, _, h, _⟩ | ⟨_, h, _⟩
    · exact Or.inl h
    · exact h
  · rcases hg with ⟨_, _, _, h⟩ | ⟨_, _, h⟩
    · exact Or.inl h
    · exact h
  · intro hno
    -- without an explicit close the system stays alive
    have key : ∀ (acts : List Action) (n0 : Net), Good n0 → n0.alive →
        (∀ a ∈ acts, ∀ w, a ≠ .muxClose w) → (n0.run acts).alive := by
      intro acts
      induction acts with
      | nil => intro n0 _ hal _; exact hal
      | cons a as ih =>
        intro n0 hg0 hal0 hno0
        have hg1 := good_step n0 hg0 a
        have hal1 : (n0.step a).alive := by
          rcases hg0 with ⟨_, hi, _, _⟩ | ⟨hd0, _, _⟩
          · cases a with
            | act w s =>
              cases w
              · have := act_meta n0.a s
                simpa [Net.step, Net.side, Net.setSide, Net.send, Net.alive, this.closedMux] using hal0
              · have := act_meta n0.b s
                simpa [Net.step, Net.side, Net.setSide, Net.send, Net.alive, this.closedMux] using hal0
            | deliver w =>
              rcases hg1 with ⟨h1, _⟩ | ⟨hd1, _, _⟩
              · exact h1
              · -- a delivery never closes a multiplexer: it would have to reject
                exfalso
                have hok := hi.deliver_ok hal0 w
                cases w with
                | a =>
                  simp only [Net.step, Net.deliver, Net.inbox] at hok hd1
                  cases hba : n0.ba with
                  | nil => simp [hba, dead, hal0.1] at hd1
                  | cons m rest =>
                    simp only [hba, Net.setInbox, Net.side, hal0.1, Bool.false_eq_true, ↓reduceIte] at hok hd1
                    cases hdl : n0.a.deliver m with
                    | error e => simp [hdl] at hok
                    | ok a' =>
                      have hf := deliver_fields hdl hal0.1
                      simp [hdl, Net.setSide, dead, hf.2.2.2.1, hal0.1] at hd1
                | b =>
                  simp only [Net.step, Net.deliver, Net.inbox] at hok hd1
                  cases hab : n0.ab with
                  | nil => simp [hab, dead, hal0.1] at hd1
                  | cons m rest =>
                    simp only [hab, Net.setInbox, Net.side, hal0.2, Bool.false_eq_true, ↓reduceIte] at hok hd1
                    cases hdl : n0.b.deliver m with
                    | error e => simp [hdl] at hok
                    | ok b' =>
                      have hf := deliver_fields hdl hal0.2
                      simp [hdl, Net.setSide, dead, hf.2.2.2.1, hal0.1, hal0.2] at hd1
            | muxClose w => exact absurd rfl (hno0 _ List.mem_cons_self w)
          · exact absurd hd0.1 (by simp [hal0.1])
        exact ih _ hg1 hal1 (fun a' ha' => hno0 a' (List.mem_cons_of_mem _ ha'))
    exact key acts _ (good_init wa ka wb kb ha hb) ⟨rfl, rfl⟩ hno

/-- Non-vacuity: a concrete run that exercises open, accept, data, a
zero-length read with data buffered, a real read, the increment and its
delivery; all deliveries are accepted and the data arrives. -/
example :
    let n := (Net.init 8 2 8 2).run
      [.act .a .openStream, .deliver .b, .act .b (.accept false), .deliver .a,
       .act .a (.writeChunk 1 [1, 2, 3]), .deliver .b, .act .b (.read 1 0 0), .act .b (.flushIncr 1),
       .act .b (.read 1 2 0), .act .b (.flushIncr 1), .deliver .a]
    n.alive ∧ (n.b.streams 1).map (·.got) = some [1, 2] ∧ (n.a.streams 1).map (·.sendWindow) = some 7 := by
  refine ⟨⟨rfl, rfl⟩, rfl, rfl⟩

end Mutagen.Properties.C24
