import Mutagen.Model.Mux
/-!
# C24 — conforming multiplexers never tear each other down
-/
namespace Mutagen.Properties.C24
open Mutagen.Model.Mux

/-- The numbering of the message kinds (regenerated from protocol.go) is
injective and within the range the reader accepts: a frame produced by
`Msg.toFrame` decodes to the message it came from. -/
theorem frame_roundtrip (m : Msg) : m.toFrame.toMsg = some m := by
  cases m <;> simp [Msg.toFrame, Frame.toMsg, Kind.ofWire, Kind.wire, Mutagen.Facts.muxKindClose,
    Mutagen.Facts.muxKindHeartbeat, Mutagen.Facts.muxKindOpen, Mutagen.Facts.muxKindAccept,
    Mutagen.Facts.muxKindData, Mutagen.Facts.muxKindWindowIncrement, Mutagen.Facts.muxKindCloseWrite]

end Mutagen.Properties.C24
