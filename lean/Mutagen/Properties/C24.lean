import Mutagen.Proofs.MuxGood
/-!
# C24 — conforming multiplexers never tear each other down

`Net` (Model/Mux.lean) is the pair of multiplexers with one FIFO of wire
messages per direction; `Action` (Model/MuxSys.lean) is every atomic step the
program, the background goroutines and the carrier can take: the critical
sections of OpenStream, AcceptStream (including stale and aborted accepts),
Read with any buffer size (including 0), Write (including empty and chunked),
CloseWrite, Close (split at its blocking points), deadlines, the flushes of the
enqueue goroutine in any order, the delivery of one message to a reader
(`Side.deliver`: the validation of `Multiplexer.read`, check by check) and
`Multiplexer.Close`.

The model describes the code with `fixes/C24.patch` applied (see the header of
Model/Mux.lean); the unrepaired code violates `no_protocol_violation`
(zero-length `Read` ⇒ zero-valued window increment; concurrent `OpenStream` ⇒
open messages out of identifier order).

Invariant (`Inv`, Proofs/MuxInv.lean), per stream identifier and direction:
* window accounting — in-flight data + buffered data + pending and in-flight
  window increments + sender window ≤ receive window ≤ 2^64-1 (`Flow.window`;
  equality is not inductive: a local close discards pending credit);
* every in-flight or pending increment is positive (`Flow.incr_pos/pend_pos`);
* nothing behind a close, no data behind a close-write, at most one of each
  (`Flow.close_last/cw_data/cw_once`);
* open first, accept (or a lone close) first in the other direction, accept at
  most once and never after a close (`Unseen.first`, `PerId.o_first/acc_once`);
* open identifiers strictly increasing, of the sender's parity, below the
  sender's next identifier and above the receiver's high-water mark (`Dir`).
-/
namespace Mutagen.Properties.C24
open Mutagen.Model.Mux

/-- The numbering of the message kinds (regenerated from protocol.go) is
injective and within the range the reader accepts: a frame produced by
`Msg.toFrame` decodes to the message it came from. -/
theorem frame_roundtrip (m : Msg) : m.toFrame.toMsg = some m := by
  cases m <;> simp [Msg.toFrame, Frame.toMsg, Kind.ofWire, Kind.wire, Mutagen.Facts.muxKindClose,
    Mutagen.Facts.muxKindHeartbeat, Mutagen.Facts.muxKindOpen, Mutagen.Facts.muxKindAccept,
    Mutagen.Facts.muxKindData, Mutagen.Facts.muxKindWindowIncrement, Mutagen.Facts.muxKindCloseWrite]

/-- The invariant holds initially (receive windows are Go `int`s, hence < 2^64). -/
theorem invariant_initially (wa ka wb kb : Int) (ha : wa ≤ maxU64) (hb : wb ≤ maxU64) :
    InvN (Net.init wa ka wb kb) :=
  InvN.init wa ka wb kb ha hb

/-- The invariant is preserved by every action that leaves both multiplexers up. -/
theorem invariant_preserved (n : Net) (h : InvN n) (hal : n.alive) (a : Action) (hal' : (n.step a).alive) :
    InvN (n.step a) :=
  h.step hal a hal'

/-- The invariant implies that the reader accepts the next in-flight message,
whatever it is. -/
theorem invariant_implies_accept (n : Net) (h : InvN n) (hal : n.alive) (w : Who) :
    (n.deliver w).2 = none :=
  h.deliver_ok hal w

/-- **C24.** For every sequence of API actions on both sides (open, accept incl.
stale/aborted, read with any buffer size incl. 0, write incl. empty, close-write,
close, deadlines, rejected opens), every order of transmission of the pending
increments / close-writes / closes and every delivery interleaving, the
receiver-side validation never rejects a delivered message. -/
theorem no_protocol_violation (wa ka wb kb : Int) (ha : wa ≤ maxU64) (hb : wb ≤ maxU64)
    (acts : List Action) (w : Who) :
    (((Net.init wa ka wb kb).run acts).deliver w).2 = none := by
  rcases good_run _ (good_init wa ka wb kb ha hb) acts with ⟨hal, hi, _, _⟩ | ⟨hd, _, _⟩
  · exact hi.deliver_ok hal w
  · cases w with
    | a =>
      simp only [Net.deliver, Net.inbox]
      cases hba : ((Net.init wa ka wb kb).run acts).ba with
      | nil => rfl
      | cons m rest => simp [Net.setInbox, Net.side, hd.1]
    | b =>
      simp only [Net.deliver, Net.inbox]
      cases hab : ((Net.init wa ka wb kb).run acts).ab with
      | nil => rfl
      | cons m rest => simp [Net.setInbox, Net.side, hd.2]

/-- **C24 (observable form).** The connection stays up until one side is
closed explicitly, and the only internal error either multiplexer ever records
is the loss of the carrier/peer — never a protocol violation. -/
theorem never_torn_down (wa ka wb kb : Int) (ha : wa ≤ maxU64) (hb : wb ≤ maxU64) (acts : List Action) :
    let n := (Net.init wa ka wb kb).run acts
    (n.a.internalErr = none ∨ n.a.internalErr = some .carrier) ∧
    (n.b.internalErr = none ∨ n.b.internalErr = some .carrier) ∧
    ((∀ a ∈ acts, ∀ w, a ≠ .muxClose w) → n.alive) := by
  intro n
  have hg := good_run _ (good_init wa ka wb kb ha hb) acts
  refine ⟨?_, ?_, ?_⟩
  · rcases hg with ⟨_, _, h, _⟩ | ⟨_, h, _⟩
    · exact Or.inl h
    · exact h
  · rcases hg with ⟨_, _, _, h⟩ | ⟨_, _, h⟩
    · exact Or.inl h
    · exact h
  · intro hno
    exact (reach_all _ ⟨rfl, rfl⟩ (InvN.init wa ka wb kb ha hb) (BInv.init wa ka wb kb) acts hno).1

/-- **Window accounting** in every reachable state, for the data flowing from
`a` to `b` on stream `X` (the mirror statement holds by symmetry of the
invariant): data in flight + data buffered at `b` + `b`'s pending increment +
increments in flight + `a`'s send window never exceed `b`'s receive window;
and every increment, in flight or pending, is positive. -/
theorem window_accounting (wa ka wb kb : Int) (ha : wa ≤ maxU64) (hb : wb ≤ maxU64)
    (acts : List Action) (hno : ∀ a ∈ acts, ∀ w, a ≠ .muxClose w) (X : Nat) :
    let n := (Net.init wa ka wb kb).run acts
    dataBytes X (onlyAbout X n.ab) + bufOf (n.b.streams X) + n.b.pendOf X +
        incrSum X (onlyAbout X n.ba) + swOf (n.a.streams X) ≤ capOf (n.b.streams X) ∧
      (∀ amt, Msg.incr X amt ∈ n.ba → 0 < amt) ∧ (∀ v, n.b.pendIncr X = some v → 0 < v) := by
  intro n
  obtain ⟨_, hi, _⟩ := reach_all _ ⟨rfl, rfl⟩ (InvN.init wa ka wb kb ha hb) (BInv.init wa ka wb kb) acts hno
  have hmem : ∀ amt, Msg.incr X amt ∈ n.ba → Msg.incr X amt ∈ onlyAbout X n.ba := by
    intro amt hm
    exact List.mem_filter.mpr ⟨hm, by simp [Msg.about, Msg.id]⟩
  by_cases ho : n.a.isOutbound X = true
  · have hf := (hi.inv.per_a X ho).flowOP
    exact ⟨hf.window, fun amt hm => hf.incr_pos amt (hmem amt hm), hf.pend_pos⟩
  · have hob : n.b.isOutbound X = true := by rw [outbound_xor hi.inv]; simpa using ho
    have hf := (hi.inv.per_b X hob).flowPO
    exact ⟨hf.window, fun amt hm => hf.incr_pos amt (hmem amt hm), hf.pend_pos⟩

/-- Non-vacuity: a concrete run that exercises open, accept, data, a
zero-length read with data buffered, a real read, the increment and its
delivery; all deliveries are accepted and the data arrives. -/
example :
    let n := (Net.init 8 2 8 2).run
      [.act .a .openStream, .deliver .b, .act .b (.accept false), .deliver .a,
       .act .a (.writeChunk 1 [1, 2, 3]), .deliver .b, .act .b (.read 1 0 0), .act .b (.flushIncr 1),
       .act .b (.read 1 2 0), .act .b (.flushIncr 1), .deliver .a]
    n.alive ∧ (n.b.streams 1).map (·.got) = some [1, 2] ∧ (n.a.streams 1).map (·.sendWindow) = some 7 := by
  refine ⟨⟨rfl, rfl⟩, rfl, rfl⟩

end Mutagen.Properties.C24
