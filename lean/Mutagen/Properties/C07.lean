import Mutagen.Proofs.Entry
import Mutagen.Proofs.Apply
import Mutagen.Proofs.PathString
/-!
# C07 — tree diff, apply, copy and filtering are mutually consistent

Theorems about the executable model `Mutagen.Model.Entry` of `diff.go`,
`apply.go` and `entry.go` (tied to the Go code by the C07 correspondence
stream). Helper lemmas live in `Mutagen.Proofs.Entry` / `Mutagen.Proofs.Apply`.

Vocabulary: `onodupKeys e` — every content list of `e` has distinct names (a
fact about every Go map); `Valid e` — additionally `EnsureValid(false)`
passes; `pget e q` — the scalar fields (kind, executable, digest, target,
problem) of the entry at path `q`, if any; `deepEq` — the model of
`Entry.Equal(other, deep = true)`.
-/
namespace Mutagen.Properties.C07
open Mutagen.Model

/-- The difference between a tree and itself is empty (every tree, valid or
not, at every base path). -/
theorem diff_self (path : Path) (a : Option Entry) : diff path a a = [] :=
  diff_same path a a rfl

/-- `Apply(a, Diff(a, b))` never fails, and the result carries, at every path,
exactly the entry `b` carries there (no hypothesis on `a`, `b` at all). -/
theorem apply_diff_paths (a b : Option Entry) :
    ∃ r, apply a (Diff a b) = .ok r ∧ ∀ q, pget r q = pget b q := by
  obtain ⟨r, h1, h2⟩ := apply_diff_spec [] a b a (Or.inl rfl) (fun q => by simp)
  exact ⟨r, h1, fun q => by simpa using h2 q⟩

/-- Applying the difference between two trees to the first yields the second:
`Apply(a, Diff(a, b))` succeeds with a result that is `Equal(…, deep)` to `b`.
Needs only that `a` and `b` are genuine maps at every level (weaker than the
property's "valid trees"). -/
theorem apply_diff (a b : Option Entry) (ha : onodupKeys a = true) (hb : onodupKeys b = true) :
    ∃ r, apply a (Diff a b) = .ok r ∧ deepEq r b = true := by
  obtain ⟨r, h1, h2⟩ := apply_diff_paths a b
  refine ⟨r, h1, deepEq_of_pget r b ?_ hb h2⟩
  exact apply_nodupKeys ha (diff_new_nodupKeys [] a b hb) h1

/-- The form stated in the property, for valid trees. -/
theorem apply_diff_valid (a b : Option Entry) (ha : Valid a) (hb : Valid b) :
    ∃ r, apply a (Diff a b) = .ok r ∧ deepEq r b = true :=
  apply_diff a b ha.1 hb.1

/-- Deep, leaf-preserving and shallow copies are, as values, the original. -/
theorem copy_eq (e : Option Entry) :
    ocopy .deep e = e ∧ ocopy .deepPreservingLeaves e = e ∧ ocopy .shallow e = e := by
  cases e with
  | none => simp [ocopy]
  | some e => simp [ocopy, Entry.copy_deep, Entry.copy_dpl, Entry.copy_shallow]

/-- A slim copy keeps the scalar fields and drops exactly the contents. -/
theorem copy_slim (e : Entry) : e.copy .slim = .mk e.props [] := Entry.copy_slim e

/-- Filtering a valid tree to its synchronizable part removes exactly the
untracked, problematic and phantom sub-trees: a path survives iff the entry
there and all its ancestors are directories, files or symbolic links, and
surviving entries keep their scalar fields. -/
theorem sync_filter_exact (e : Option Entry) (hv : Valid e) (q : Path) :
    pget (osync e) q = if syncAlong e q then pget e q else none :=
  sync_pget e hv q

/-- `Count` equals the number of entries of the synchronizable part. -/
theorem count_eq (e : Option Entry) (hv : Valid e) : ocount e = osz (osync e) := by
  cases e with
  | none => rfl
  | some e => exact Entry.count_eq e hv.2

/-- Path-string glue: for names that pass the `EnsureValid` name checks
(non-empty, no `/`), the components `Apply` derives from a path string
(`""` = root, otherwise `strings.Split(path, "/")`) are exactly the names from
which `diff` / `reconcile` built that string with `Joinable(path) + name`. -/
theorem split_join (p : List PathString.Str) (h : ∀ n ∈ p, PathString.nameOk n) :
    PathString.components (PathString.join p) = p :=
  PathString.components_join p h

/-! Non-vacuity: concrete valid trees with unsynchronizable content. -/

example : Valid (some exampleTree1) ∧ Valid (some exampleTree2) := by unfold Valid; decide
example : ocount (some exampleTree1) = 4 ∧ osz (osync (some exampleTree1)) = 4 := by decide
example : syncAlong (some exampleTree1) ["d", "b"] = true ∧ syncAlong (some exampleTree1) ["d", "x"] = false := by decide

end Mutagen.Properties.C07
