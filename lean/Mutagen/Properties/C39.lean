import Mutagen.Proofs.Identifier
/-!
# C39 — session identifiers are well formed and distinct

Property theorems only (helper lemmas: `Mutagen.Proofs.Identifier`).

`new pfx random` is `identifier.New(prefix)` with the 32 bytes returned by
`random.New` as a parameter (`pfx` = the prefix's bytes); `isValid`,
`truncated` are `IsValid`, `Truncated`; `ensureNameValid extra` is
`selection.EnsureNameValid` with `extra` the classification of non-ASCII
code points by `unicode.IsLetter`/`IsNumber` (the theorems hold for every
`extra`).
-/
namespace Mutagen.Properties.C39
open Mutagen.Model.Identifier Mutagen.Proofs.Identifier

/-- A prefix `New` accepts: four bytes `'a'..'z'`. -/
def PrefixOK (pfx : Bytes) : Prop :=
  pfx.length = 4 ∧ pfx.all (fun b => isLowerAZ (Char.ofNat b.toNat)) = true

/-- Shape: for every valid prefix and every 32-byte random value `New` succeeds
(never panics), and the identifier is the prefix, an underscore and exactly 43
base-62 characters — 48 characters in all — and is accepted by `IsValid`. -/
theorem identifier_shape (pfx random : Bytes) (hp : PrefixOK pfx) (hr : random.length = 32) :
    ∃ id, new pfx random = .ok id ∧ id.length = 48 ∧
      id.take 4 = pfx.map (fun b => Char.ofNat b.toNat) ∧ id[4]? = some '_' ∧
      (id.drop 5).length = 43 ∧ (id.drop 5).all isAlnum62 = true ∧
      matchesId id = true ∧ isValid id = true := by
  obtain ⟨hp1, hp2⟩ := hp
  obtain ⟨hlen, halnum⟩ := encodeBase62_shape random hr
  have hnew : new pfx random = .ok (pfx.map (fun b => Char.ofNat b.toNat) ++ ['_'] ++
      List.replicate (43 - (encodeBase62 random).length) '0' ++ encodeBase62 random) := by
    have h4 : requiredPrefixLength = 4 := rfl
    have h43 : targetBase62Length = 43 := rfl
    simp only [new, h4, h43, hp1, alphabet_zero]
    simp [hp2, Nat.not_lt.mpr hlen]
  have hA : (pfx.map (fun b => Char.ofNat b.toNat)).length = 4 := by simp [hp1]
  have hshape : ∀ id, id = pfx.map (fun b => Char.ofNat b.toNat) ++ ['_'] ++
      List.replicate (43 - (encodeBase62 random).length) '0' ++ encodeBase62 random →
      id.length = 48 ∧ id.take 4 = pfx.map (fun b => Char.ofNat b.toNat) ∧ id[4]? = some '_' ∧
      (id.drop 5).length = 43 ∧ (id.drop 5).all isAlnum62 = true := by
    intro id hid
    have e1 : id = pfx.map (fun b => Char.ofNat b.toNat) ++ ('_' ::
        (List.replicate (43 - (encodeBase62 random).length) '0' ++ encodeBase62 random)) := by
      rw [hid]; simp
    have e5 : (pfx.map (fun b => Char.ofNat b.toNat) ++ ['_']).length = 5 := by simp [hp1]
    have d5 : id.drop 5 = List.replicate (43 - (encodeBase62 random).length) '0' ++ encodeBase62 random := by
      rw [hid, List.append_assoc _ (List.replicate _ _), List.drop_left' e5]
    refine ⟨?_, ?_, ?_, ?_, ?_⟩
    · rw [hid]; simp [hp1]; omega
    · rw [e1, List.take_left' hA]
    · rw [e1, List.getElem?_append_right (by omega), hA]; simp
    · rw [d5]; simp; omega
    · rw [d5, List.all_append, halnum]
      simp only [List.all_replicate, Bool.and_true]
      split
      · rfl
      · decide
  obtain ⟨s1, s2, s3, s4, s5⟩ := hshape _ rfl
  refine ⟨_, hnew, s1, s2, s3, s4, s5, ?_⟩
  have hm : matchesId (pfx.map (fun b => Char.ofNat b.toNat) ++ ['_'] ++
      List.replicate (43 - (encodeBase62 random).length) '0' ++ encodeBase62 random) = true := by
    simp only [matchesId, s1, s2, s3, s5]
    simpa [List.all_map] using hp2
  exact ⟨hm, by unfold isValid; rw [hm]; rfl⟩

/-- Whenever `New` succeeds the text after the underscore, read as a base-62
numeral, *is* the big-endian integer of the random bytes (the padding and the
encoder's leading-zero characters are zeros of that numeral). -/
theorem identifier_denotes_value (pfx random : Bytes) (id : List Char) (h : new pfx random = .ok id) :
    pfx.length = 4 ∧ id.take 4 = pfx.map (fun b => Char.ofNat b.toNat) ∧
    strVal (id.drop 5) = bytesVal random := by
  have h4 : requiredPrefixLength = 4 := rfl
  simp only [new, h4, alphabet_zero] at h
  by_cases c1 : pfx.length = 4
  · by_cases c2 : pfx.all (fun b => isLowerAZ (Char.ofNat b.toNat)) = true
    · by_cases c3 : (encodeBase62 random).length > targetBase62Length
      · simp [c1, c2, c3] at h
      · simp only [c1, c2, c3, ne_eq, not_true_eq_false, if_false, NewResult.ok.injEq] at h
        have hA : (pfx.map (fun b => Char.ofNat b.toNat)).length = 4 := by simp [c1]
        have e5 : (pfx.map (fun b => Char.ofNat b.toNat) ++ ['_']).length = 5 := by simp [c1]
        refine ⟨c1, ?_, ?_⟩
        · rw [← h, List.append_assoc, List.append_assoc, List.take_left' hA]
        · rw [← h, List.append_assoc _ (List.replicate _ _), List.drop_left' e5, strVal_zeros,
            strVal_encodeBase62]
    · simp [c1, c2] at h
  · simp [c1] at h

/-- Injectivity: two successful calls of `New` that return the same identifier
used the same prefix and — for random values of equal length, in particular
two 32-byte values — the same random value. Distinct draws give distinct
identifiers (62^43 > 2^256; leading zero bytes do not collide). -/
theorem identifier_injective (p₁ p₂ r₁ r₂ : Bytes) (id : List Char)
    (h₁ : new p₁ r₁ = .ok id) (h₂ : new p₂ r₂ = .ok id) (hl : r₁.length = r₂.length) :
    p₁ = p₂ ∧ r₁ = r₂ := by
  obtain ⟨a1, a2, a3⟩ := identifier_denotes_value p₁ r₁ id h₁
  obtain ⟨b1, b2, b3⟩ := identifier_denotes_value p₂ r₂ id h₂
  constructor
  · have hm : p₁.map (fun b => Char.ofNat b.toNat) = p₂.map (fun b => Char.ofNat b.toNat) := by
      rw [← a2, ← b2]
    exact (List.map_inj_right (fun x y h => byteChar_injective h)).mp hm
  · exact bytesVal_injective r₁ r₂ hl (by rw [← a3, ← b3])

/-- The numeric fact behind the fixed length: 43 base-62 digits are enough for
every 256-bit value (and 42 are not). -/
theorem digits_suffice : 2 ^ 256 < 62 ^ 43 ∧ 62 ^ 42 < 2 ^ 256 := by decide

/-- The truncated display form is a prefix of the identifier — for every string
— and for identifiers of the current format it is the prefix, the underscore
and 8 characters. -/
theorem truncated_prefix (id : List Char) :
    truncated id <+: id ∧ (matchesId id = true → (truncated id).length = 4 + 1 + 8) := by
  constructor
  · unfold truncated
    split
    · exact List.take_prefix _ _
    · split
      · exact List.take_prefix _ _
      · exact List.nil_prefix
  · intro hm
    have h4 : requiredPrefixLength = 4 := rfl
    have hl : id.length = 48 := by
      simp only [matchesId, decide_eq_true_eq] at hm
      exact hm.1
    simp [truncated, hm, h4, hl]

/-- A name containing a character that is neither a letter, nor a number, nor a
dash is rejected. -/
theorem name_with_foreign_char_rejected (extra : Char → CharClass) (name : List Char) (c : Char)
    (hc : c ∈ name) (hcls : classify extra c = .other) (hdash : c ≠ '-') :
    ensureNameValid extra name ≠ .ok := by
  have key : ∀ (s : List Char) (first dash : Bool), c ∈ s → (nameLoop extra s first dash).1 ≠ .ok := by
    intro s
    induction s with
    | nil => intro _ _ h; simp at h
    | cons r rest ih =>
      intro first dash hmem
      simp only [nameLoop]
      by_cases h1 : classify extra r = .letter
      · have : c ∈ rest := by
          rcases List.mem_cons.mp hmem with e | e
          · subst e; rw [hcls] at h1; cases h1
          · exact e
        simpa [h1] using ih false dash this
      · by_cases h2 : first = true
        · simp [h1, h2]
        · by_cases h3 : classify extra r = .number
          · have : c ∈ rest := by
              rcases List.mem_cons.mp hmem with e | e
              · subst e; rw [hcls] at h3; cases h3
              · exact e
            simpa [h1, h2, h3] using ih false dash this
          · by_cases h4 : r = '-'
            · have : c ∈ rest := by
                rcases List.mem_cons.mp hmem with e | e
                · subst e; exact absurd h4 hdash
                · exact e
              subst h4
              simpa [h1, h2, h3] using ih false true this
            · simp [h1, h2, h3, h4]
  have := key name true false hc
  unfold ensureNameValid
  cases hr : nameLoop extra name true false with
  | mk e d =>
    rw [hr] at this
    cases e <;> simp_all

/-- Names that look like identifiers of the current format are rejected (they
contain the underscore, which no name may contain), for every classification
of non-ASCII code points. -/
theorem names_reject_identifiers (extra : Char → CharClass) (name : List Char)
    (h : matchesId name = true) : ensureNameValid extra name ≠ .ok := by
  simp only [matchesId, decide_eq_true_eq] at h
  have hmem : '_' ∈ name := List.mem_of_getElem? h.2.2.1
  exact name_with_foreign_char_rejected extra name '_' hmem (by simp [classify]) (by decide)

/-- Names that look like legacy identifiers (lower-case UUIDs) are rejected: either
they start with a digit, or they pass the character loop with a dash and
`uuid.Parse` accepts them. -/
theorem names_reject_legacy_identifiers (extra : Char → CharClass) (name : List Char)
    (h : legacyMatches name = true) : ensureNameValid extra name ≠ .ok := by
  rcases names_reject_legacy extra name h with e | e <;> rw [e] <;> decide

/-- Hence no string that `IsValid` accepts as an identifier (either format) is
accepted as a session name. -/
theorem names_reject_valid_identifiers (extra : Char → CharClass) (name : List Char)
    (h : isValid name = true) : ensureNameValid extra name ≠ .ok := by
  simp only [isValid, Bool.or_eq_true] at h
  rcases h with h | h
  · exact names_reject_identifiers extra name h
  · exact names_reject_legacy_identifiers extra name h

/-- In particular every identifier `New` can return is rejected as a name. -/
theorem names_reject_new_identifiers (extra : Char → CharClass) (pfx random : Bytes)
    (hp : PrefixOK pfx) (hr : random.length = 32) :
    ∃ id, new pfx random = .ok id ∧ ensureNameValid extra id ≠ .ok := by
  obtain ⟨id, h1, _, _, _, _, _, hm, _⟩ := identifier_shape pfx random hp hr
  exact ⟨id, h1, names_reject_identifiers extra id hm⟩

/-- The reserved word is rejected. -/
theorem names_reject_reserved (extra : Char → CharClass) :
    ensureNameValid extra "defaults".toList = .reserved := by
  simp [ensureNameValid, nameLoop, classify]

/-- Non-vacuity: an ordinary name is accepted, so the rejections above are not
an artefact of a validator that rejects everything. -/
example : ensureNameValid (fun _ => .other) "web-1".toList = .ok := by decide

/-- Non-vacuity: a legacy (UUID) identifier is valid as an identifier and
rejected as a name. -/
example : isValid "0a1b2c3d-0000-4fff-8abc-0123456789ab".toList = true ∧
    ensureNameValid (fun _ => .other) "a1b2c3d4-0000-4fff-8abc-0123456789ab".toList = .isUUID := by
  decide

end Mutagen.Properties.C39
