import Mutagen.Model.Mux
/-!
# C23 — multiplexed streams deliver bytes reliably and in order
-/
namespace Mutagen.Properties.C23
open Mutagen.Model.Mux

/-- `Read` returns the oldest buffered bytes, removes exactly those from the
receive buffer, and records them in the ghost history: what was read so far
followed by what is buffered never changes by reading. -/
theorem read_preserves_got_buf (s : Side) (id n now : Nat) (st : Stream) (bs : List UInt8)
    (h : s.streams id = some st) (hr : (s.read id n now).2 = .data bs) :
    ∃ st', (s.read id n now).1.streams id = some st' ∧
      st'.got ++ st'.recvBuf = st.got ++ st.recvBuf ∧ st'.got = st.got ++ bs := by
  simp only [Side.read, h] at hr ⊢
  repeat (split at hr <;> try simp at hr)
  subst hr
  rename_i h1 h2 h3 h4 h5
  simp only [h1, h2, h3, h4, h5]
  simp only [Bool.false_eq_true, ↓reduceIte, ne_eq, not_false_eq_true]
  split <;> simp [Side.setStream, Side.enqIncr] <;> (try split) <;> simp [List.append_assoc]

end Mutagen.Properties.C23
