import Mutagen.Proofs.MuxBytesNet
/-!
# C23 — multiplexed streams deliver bytes reliably and in order

The stream objects of the model carry two ghost histories (not in the Go code):
`sent` — every byte `Stream.Write` has put on the wire, in order — and `got` —
every byte `Stream.Read` has returned, in order. The theorems are about every
state reachable from the initial state by any sequence of actions of
`Model/MuxSys.lean` (API calls of both programs on any streams, background
goroutine steps, deliveries in any interleaving) that does not contain an
explicit `Multiplexer.Close`; by C24 such a run never loses the connection.
All statements are per stream identifier, which is the isolation claim: what
is read on stream `X` is related to what was written on stream `X` only.
-/
namespace Mutagen.Properties.C23
open Mutagen.Model.Mux

/-- Single step: `Read` returns the oldest buffered bytes, removes exactly
those from the receive buffer and appends them to the history. -/
theorem read_returns_buffer_prefix (s : Side) (id n now : Nat) (st : Stream) (bs : List UInt8)
    (h : s.streams id = some st) (hr : (s.read id n now).2 = .data bs) :
    bs = st.recvBuf.take n ∧
    ∃ st', (s.read id n now).1.streams id = some st' ∧ st'.recvBuf = st.recvBuf.drop n ∧
      st'.got = st.got ++ bs := by
  unfold Side.read at hr ⊢
  simp only [h] at hr ⊢
  by_cases h1 : st.closed = true
  · simp [h1] at hr
  · simp only [h1, Bool.false_eq_true, ↓reduceIte] at hr ⊢
    by_cases h2 : s.closedMux = true
    · simp [h2] at hr
    · simp only [h2, Bool.false_eq_true, ↓reduceIte] at hr ⊢
      by_cases h3 : st.readExpired = true
      · simp [h3] at hr
      · simp only [h3, Bool.false_eq_true, ↓reduceIte] at hr ⊢
        by_cases h4 : (st.readTimer.any fun x => decide (x ≤ now)) = true
        · simp [h4] at hr
        · simp only [h4, Bool.false_eq_true, ↓reduceIte] at hr ⊢
          by_cases h5 : st.recvBuf = []
          · simp only [h5, ne_eq, not_true_eq_false, ↓reduceIte] at hr
            split at hr <;> simp at hr
          · simp only [ne_eq, h5, not_false_eq_true, ↓reduceIte] at hr ⊢
            have hbs : bs = st.recvBuf.take n := by
              simp only [ReadRes.data.injEq] at hr; exact hr.symm
            refine ⟨hbs, ?_⟩
            split <;> simp [Side.setStream, Side.enqIncr, hbs] <;> (try split) <;> simp

/-- **C23 (a).** On every stream and in both directions, the bytes read by one
side are a prefix of the bytes written by the other side: no loss inside the
prefix, no duplication, no reordering, nothing from another stream. -/
theorem stream_bytes_prefix (wa ka wb kb : Int) (ha : wa ≤ maxU64) (hb : wb ≤ maxU64)
    (acts : List Action) (hno : ∀ a ∈ acts, ∀ w, a ≠ .muxClose w) (X : Nat) (sa sb : Stream) :
    let n := (Net.init wa ka wb kb).run acts
    n.a.streams X = some sa → n.b.streams X = some sb → sb.got <+: sa.sent ∧ sa.got <+: sb.sent := by
  intro n hsa hsb
  obtain ⟨_, _, hbi⟩ := reach_all _ ⟨rfl, rfl⟩ (InvN.init wa ka wb kb ha hb) (BInv.init wa ka wb kb) acts hno
  have h1 := hbi.ab X sa.bview sb.bview (bviewAt_of hsa) (bviewAt_of hsb)
  have h2 := hbi.ba X sb.bview sa.bview (bviewAt_of hsb) (bviewAt_of hsa)
  simp only [Stream.bview] at h1 h2
  constructor
  · cases hr : sb.registered with
    | true =>
      have := h1.1 hr
      rw [← this, List.append_assoc]; exact List.prefix_append _ _
    | false => exact List.IsPrefix.trans (List.prefix_append _ _) (h1.2 hr)
  · cases hr : sa.registered with
    | true =>
      have := h2.1 hr
      rw [← this, List.append_assoc]; exact List.prefix_append _ _
    | false => exact List.IsPrefix.trans (List.prefix_append _ _) (h2.2 hr)

/-- **C23 (a'), exact accounting.** While the reader's stream is registered,
what it has read, followed by what is buffered, followed by the data in flight
is exactly what the peer has written. -/
theorem stream_bytes_accounting (wa ka wb kb : Int) (ha : wa ≤ maxU64) (hb : wb ≤ maxU64)
    (acts : List Action) (hno : ∀ a ∈ acts, ∀ w, a ≠ .muxClose w) (X : Nat) (sa sb : Stream) :
    let n := (Net.init wa ka wb kb).run acts
    n.a.streams X = some sa → n.b.streams X = some sb →
    (sb.registered = true → sb.got ++ sb.recvBuf ++ dataCat X n.ab = sa.sent) ∧
    (sa.registered = true → sa.got ++ sa.recvBuf ++ dataCat X n.ba = sb.sent) := by
  intro n hsa hsb
  obtain ⟨_, _, hbi⟩ := reach_all _ ⟨rfl, rfl⟩ (InvN.init wa ka wb kb ha hb) (BInv.init wa ka wb kb) acts hno
  have h1 := hbi.ab X sa.bview sb.bview (bviewAt_of hsa) (bviewAt_of hsb)
  have h2 := hbi.ba X sb.bview sa.bview (bviewAt_of hsb) (bviewAt_of hsa)
  simp only [Stream.bview] at h1 h2
  exact ⟨h1.1, h2.1⟩

/-- **C23 (b).** A reader (holding the handle of the stream) sees end-of-stream
only after the peer closed the stream for writing (`CloseWrite` or `Close`),
and only after it has read every byte the peer wrote. Stated for side `a`
reading; `eof_after_all_data_b` is the mirror image. -/
theorem eof_after_all_data_a (wa ka wb kb : Int) (ha : wa ≤ maxU64) (hb : wb ≤ maxU64)
    (acts : List Action) (hno : ∀ a ∈ acts, ∀ w, a ≠ .muxClose w) (X k now : Nat) :
    let n := (Net.init wa ka wb kb).run acts
    n.a.hasHandle X = true → (n.a.read X k now).2 = .eof →
    ∃ sa sb, n.a.streams X = some sa ∧ n.b.streams X = some sb ∧ sb.closedWrite = true ∧ sa.got = sb.sent := by
  intro n hh heof
  obtain ⟨_, hi, hbi⟩ := reach_all _ ⟨rfl, rfl⟩ (InvN.init wa ka wb kb ha hb) (BInv.init wa ka wb kb) acts hno
  obtain ⟨sa0, hsa0, hest⟩ := (hasHandle_iff n.a X).mp hh
  by_cases ho : n.a.isOutbound X = true
  · -- `a` opened the stream: `a` is the opener, data flows acceptor → opener
    have hp := hi.inv.per_a X ho
    obtain ⟨sp, hsp, _⟩ := hp.est_o sa0 hsa0 hest
    refine eof_generic (hbi.ba X) (hbi.ra X) heof ?_ ?_
    · intro Rs hRs hrcw
      obtain ⟨Ss, hSs, hcw, _⟩ := hp.flowPO.cw_src_r Rs hRs hrcw
      refine ⟨⟨Ss, hSs, hcw⟩, dataCat_nil_of_filter fun m hm => ?_⟩
      exact (hp.flowPO.rcw Rs hRs hrcw m hm).2
    · intro Rs hRs hrc
      have hcl := hp.close_src_p_r Rs hRs hrc sp hsp
      refine ⟨⟨sp, hsp, (hp.flowPO.closed_clean sp hsp hcl).1⟩, dataCat_nil_of_filter_about ?_⟩
      exact hp.flowPO.rc Rs hRs hrc
  · -- `b` opened the stream: `a` is the acceptor, data flows opener → acceptor
    have hob : n.b.isOutbound X = true := by rw [outbound_xor hi.inv]; simpa using ho
    have hp := hi.inv.per_b X hob
    refine eof_generic (hbi.ba X) (hbi.ra X) heof ?_ ?_
    · intro Rs hRs hrcw
      obtain ⟨Ss, hSs, hcw, _⟩ := hp.flowOP.cw_src_r Rs hRs hrcw
      refine ⟨⟨Ss, hSs, hcw⟩, dataCat_nil_of_filter fun m hm => ?_⟩
      exact (hp.flowOP.rcw Rs hRs hrcw m hm).2
    · intro Rs hRs hrc
      obtain ⟨Ss, hSs, hcl⟩ := hp.close_src_o_r Rs hRs hrc
      refine ⟨⟨Ss, hSs, (hp.flowOP.closed_clean Ss hSs hcl).1⟩, dataCat_nil_of_filter_about ?_⟩
      exact hp.flowOP.rc Rs hRs hrc

theorem eof_after_all_data_b (wa ka wb kb : Int) (ha : wa ≤ maxU64) (hb : wb ≤ maxU64)
    (acts : List Action) (hno : ∀ a ∈ acts, ∀ w, a ≠ .muxClose w) (X k now : Nat) :
    let n := (Net.init wa ka wb kb).run acts
    n.b.hasHandle X = true → (n.b.read X k now).2 = .eof →
    ∃ sb sa, n.b.streams X = some sb ∧ n.a.streams X = some sa ∧ sa.closedWrite = true ∧ sb.got = sa.sent := by
  intro n hh heof
  obtain ⟨_, hi, hbi⟩ := reach_all _ ⟨rfl, rfl⟩ (InvN.init wa ka wb kb ha hb) (BInv.init wa ka wb kb) acts hno
  obtain ⟨sb0, hsb0, hest⟩ := (hasHandle_iff n.b X).mp hh
  by_cases ho : n.b.isOutbound X = true
  · have hp := hi.inv.per_b X ho
    obtain ⟨sp, hsp, _⟩ := hp.est_o sb0 hsb0 hest
    refine eof_generic (hbi.ab X) (hbi.rb X) heof ?_ ?_
    · intro Rs hRs hrcw
      obtain ⟨Ss, hSs, hcw, _⟩ := hp.flowPO.cw_src_r Rs hRs hrcw
      refine ⟨⟨Ss, hSs, hcw⟩, dataCat_nil_of_filter fun m hm => ?_⟩
      exact (hp.flowPO.rcw Rs hRs hrcw m hm).2
    · intro Rs hRs hrc
      have hcl := hp.close_src_p_r Rs hRs hrc sp hsp
      refine ⟨⟨sp, hsp, (hp.flowPO.closed_clean sp hsp hcl).1⟩, dataCat_nil_of_filter_about ?_⟩
      exact hp.flowPO.rc Rs hRs hrc
  · have hoa : n.a.isOutbound X = true := by
      have := outbound_xor hi.inv X
      cases hh' : n.a.isOutbound X with
      | true => rfl
      | false => rw [hh'] at this; exact absurd (by simpa using this) ho
    have hp := hi.inv.per_a X hoa
    refine eof_generic (hbi.ab X) (hbi.rb X) heof ?_ ?_
    · intro Rs hRs hrcw
      obtain ⟨Ss, hSs, hcw, _⟩ := hp.flowOP.cw_src_r Rs hRs hrcw
      refine ⟨⟨Ss, hSs, hcw⟩, dataCat_nil_of_filter fun m hm => ?_⟩
      exact (hp.flowOP.rcw Rs hRs hrcw m hm).2
    · intro Rs hRs hrc
      obtain ⟨Ss, hSs, hcl⟩ := hp.close_src_o_r Rs hRs hrc
      refine ⟨⟨Ss, hSs, (hp.flowOP.closed_clean Ss hSs hcl).1⟩, dataCat_nil_of_filter_about ?_⟩
      exact hp.flowOP.rc Rs hRs hrc

/-- Non-vacuity: a run in which `a` writes three bytes and half-closes; `b`
reads two, then one, then sees EOF — having read exactly what was written. -/
example :
    let n := (Net.init 8 2 8 2).run
      [.act .a .openStream, .deliver .b, .act .b (.accept false), .deliver .a,
       .act .a (.writeChunk 1 [7, 8, 9]), .act .a (.closeWrite 1), .act .a (.flushCW 1),
       .deliver .b, .deliver .b, .act .b (.read 1 2 0), .act .b (.read 1 5 0)]
    (n.b.read 1 4 0).2 = .eof ∧ (n.b.streams 1).map (·.got) = some [7, 8, 9] ∧
      (n.a.streams 1).map (·.sent) = some [7, 8, 9] := by
  refine ⟨rfl, rfl, rfl⟩

end Mutagen.Properties.C23
