import Mutagen.Model.Ring
/-!
# C26 — the ring buffer behaves as a bounded FIFO byte queue

Property theorems only (helper lemmas live in `Mutagen.Proofs.Ring`).
-/
namespace Mutagen.Properties.C26
open Mutagen.Model.Ring

/-- A fresh buffer satisfies the representation invariant and is empty. -/
theorem new_inv (n : Nat) : (new n).Inv ∧ (new n).abs = [] := by
  refine ⟨⟨by simp [new], by simp [new], ?_⟩, by simp [new, Buffer.abs]⟩
  by_cases h : n = 0
  · right; simp [new, h]
  · left; simp [new]; omega

/-- `Reset` preserves the invariant and empties the queue. -/
theorem reset_inv (b : Buffer) (h : b.Inv) : b.reset.Inv ∧ b.reset.abs = [] := by
  obtain ⟨h1, h2, h3⟩ := h
  refine ⟨⟨h1, by simp [Buffer.reset], ?_⟩, by simp [Buffer.reset, Buffer.abs]⟩
  simp only [Buffer.reset]
  rcases h3 with h3 | h3
  · left; omega
  · right; simp [h3.1]

end Mutagen.Properties.C26
