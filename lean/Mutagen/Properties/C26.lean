import Mutagen.Model.Ring
import Mutagen.Proofs.Ring
import Mutagen.Proofs.RingFacts
/-!
# C26 — the ring buffer behaves as a bounded FIFO byte queue

Property theorems only (helper lemmas live in `Mutagen.Proofs.Ring` and
`Mutagen.Proofs.RingFacts`).

`Buffer` is the model of `ring.Buffer` (storage/size/start/used, loops mirrored
one iteration at a time), `Buffer.Inv` the representation invariant from the Go
comments, `Buffer.toQueue` the abstraction to the specification `Queue`
(capacity + contents, oldest first). Everything is for every capacity,
including 0, and every buffer state satisfying the invariant — not only
reachable ones.
-/
namespace Mutagen.Properties.C26
open Mutagen.Model.Ring Mutagen.Proofs.Ring

/-- A fresh buffer satisfies the representation invariant and is empty. -/
theorem new_inv (n : Nat) : (new n).Inv ∧ (new n).abs = [] := by
  refine ⟨(new_refines n).1, by simp [new, Buffer.abs]⟩

/-- `NewBuffer(n)` represents the empty queue of capacity `n`. -/
theorem new_refines (n : Nat) : (new n).Inv ∧ (new n).toQueue = Queue.new n :=
  Mutagen.Proofs.Ring.new_refines n

/-- `Reset` preserves the invariant and empties the queue. -/
theorem reset_inv (b : Buffer) (h : b.Inv) : b.reset.Inv ∧ b.reset.abs = [] := by
  refine ⟨(reset_refines b h).1, by simp [Buffer.reset, Buffer.abs]⟩

/-! ## The representation invariant is preserved by every operation -/

/-- Every operation (Write, WriteByte, Read, ReadByte, Reset, ReadNFrom with any
reader script, WriteTo with any writer script) preserves the invariant. -/
theorem inv_preserved (b : Buffer) (h : b.Inv) (op : Op) : (b.step op).1.Inv :=
  (step_refines b h op).1

/-- …and so does every sequence of operations, from a fresh buffer of any capacity. -/
theorem inv_reachable (cap : Nat) (ops : List Op) : ((new cap).run ops).1.Inv :=
  (run_refines ops (new cap) (new_refines cap).1).1

/-! ## Refinement, operation by operation

Each theorem says: the invariant still holds, and the triple (abstract queue
after the call, returned count / bytes, returned error) equals what the plain
bounded queue does. -/

/-- `Write`: appends the longest prefix that fits, returns its length, and
`ErrBufferFull` exactly when something did not fit. -/
theorem write_refines (b : Buffer) (h : b.Inv) (data : List UInt8) :
    (b.write data).1.Inv ∧
    ((b.write data).1.toQueue, (b.write data).2.1, (b.write data).2.2) = b.toQueue.write data :=
  Mutagen.Proofs.Ring.write_refines b h data

/-- `WriteByte`. -/
theorem writeByte_refines (b : Buffer) (h : b.Inv) (v : UInt8) :
    (b.writeByte v).1.Inv ∧
    ((b.writeByte v).1.toQueue, (b.writeByte v).2) = b.toQueue.writeByte v :=
  Mutagen.Proofs.Ring.writeByte_refines b h v

/-- `Read`: returns the oldest `min len used` bytes in order; `(0, nil)` for an
empty destination; `io.EOF` exactly when the destination is non-empty and the
queue is empty. -/
theorem read_refines (b : Buffer) (h : b.Inv) (len : Nat) :
    (b.read len).1.Inv ∧
    ((b.read len).1.toQueue, (b.read len).2.1, (b.read len).2.2) = b.toQueue.read len :=
  Mutagen.Proofs.Ring.read_refines b h len

/-- `ReadByte`. -/
theorem readByte_refines (b : Buffer) (h : b.Inv) :
    b.readByte.1.Inv ∧
    (b.readByte.1.toQueue, b.readByte.2.1, b.readByte.2.2) = b.toQueue.readByte :=
  Mutagen.Proofs.Ring.readByte_refines b h

/-- `Reset`. -/
theorem reset_refines (b : Buffer) (h : b.Inv) : b.reset.Inv ∧ b.reset.toQueue = b.toQueue.reset :=
  Mutagen.Proofs.Ring.reset_refines b h

/-- `ReadNFrom`, for every reader script (arbitrary short reads and errors):
the run is one of the runs of the queue-level loop in which each call offers
the reader some non-empty window no larger than the remaining request and the
free space. -/
theorem readNFrom_refines (b : Buffer) (h : b.Inv) (script : List ReadResp) (n : Nat) :
    (b.readNFrom script n).1.Inv ∧
    b.toQueue.ReadNFrom script n
      ((b.readNFrom script n).1.toQueue, (b.readNFrom script n).2.1, (b.readNFrom script n).2.2) :=
  Mutagen.Proofs.Ring.readNFrom_refines b h script n

/-- `WriteTo`, for every writer script (arbitrary short writes and failures):
the run is one of the runs of the queue-level loop in which each call offers
the writer a non-empty prefix of the queue. -/
theorem writeTo_refines (b : Buffer) (h : b.Inv) (script : List WriteResp) :
    (b.writeTo script).1.Inv ∧
    b.toQueue.WriteTo script
      ((b.writeTo script).1.toQueue, (b.writeTo script).2.1, (b.writeTo script).2.2) :=
  Mutagen.Proofs.Ring.writeTo_refines b h script

/-! ## Exact accounting with short-reading / short-writing peers -/

/-- `ReadNFrom` accounts exactly: the queue grows by exactly the bytes the
reader delivered (a concatenation of prefixes of its responses, in order), the
returned count is their number, never more than `n` nor than the free space;
`nil` error only if all `n` bytes were read; EOF is never reported together
with completion; `ErrBufferFull` (for readers that do not themselves return
it) only for an incomplete read into a now-full buffer, and always in that
situation when the reader did not fail. -/
theorem readNFrom_accounting (b : Buffer) (h : b.Inv) (script : List ReadResp) (n : Nat) :
    ∃ delivered, Chunks script delivered ∧
      (b.readNFrom script n).1.abs = b.abs ++ delivered ∧
      (b.readNFrom script n).1.size = b.size ∧
      (b.readNFrom script n).2.1 = delivered.length ∧
      (b.readNFrom script n).2.1 ≤ n ∧
      (b.readNFrom script n).1.abs.length ≤ b.size ∧
      ((b.readNFrom script n).2.2 = .none → (b.readNFrom script n).2.1 = n) ∧
      ((b.readNFrom script n).2.1 = n → (b.readNFrom script n).2.2 ≠ .eof) ∧
      ((b.readNFrom script n).2.2 = .full → (∀ r ∈ script, r.err ≠ .full) →
        (b.readNFrom script n).2.1 < n ∧ (b.readNFrom script n).1.abs.length = b.size) ∧
      ((b.readNFrom script n).2.1 < n → (b.readNFrom script n).1.abs.length = b.size →
        (∀ r ∈ script, r.err = .none) → (b.readNFrom script n).2.2 = .full) := by
  have hq : b.toQueue.data.length ≤ b.toQueue.cap := by
    show b.abs.length ≤ b.size
    rw [abs_length b h]; exact h.2.1
  exact readNFrom_facts (Mutagen.Proofs.Ring.readNFrom_refines b h script n).2 hq

/-- `WriteTo` accounts exactly: the bytes handed to (and accepted by) the
writer followed by what is left in the buffer are the old contents; a `nil`
error means the buffer was drained completely; the only error is the writer's. -/
theorem writeTo_accounting (b : Buffer) (h : b.Inv) (script : List WriteResp) :
    b.abs = (b.writeTo script).2.1 ++ (b.writeTo script).1.abs ∧
    (b.writeTo script).1.size = b.size ∧
    ((b.writeTo script).2.2 = .none → (b.writeTo script).1.abs = []) ∧
    ((b.writeTo script).2.2 = .none ∨ (b.writeTo script).2.2 = .peer) :=
  writeTo_facts (Mutagen.Proofs.Ring.writeTo_refines b h script).2

/-! ## Whole operation sequences -/

/-- For every capacity (including 0) and every sequence of operations, the
outputs of the ring buffer (counts, bytes, errors of every call) and its final
contents are those of a run of the bounded-queue specification. -/
theorem run_refines (cap : Nat) (ops : List Op) :
    Queue.Run (Queue.new cap) ops ((new cap).run ops).1.toQueue ((new cap).run ops).2 := by
  have h := Mutagen.Proofs.Ring.run_refines ops (new cap) (new_refines cap).1
  rw [(new_refines cap).2] at h
  exact h.2

/-- The same from any state satisfying the invariant. -/
theorem run_refines_from (b : Buffer) (h : b.Inv) (ops : List Op) :
    (b.run ops).1.Inv ∧ Queue.Run b.toQueue ops (b.run ops).1.toQueue (b.run ops).2 :=
  Mutagen.Proofs.Ring.run_refines ops b h

/-- The contents never exceed the capacity and `Used()` is their number. -/
theorem used_is_length (cap : Nat) (ops : List Op) :
    ((new cap).run ops).1.abs.length = ((new cap).run ops).1.used ∧
    ((new cap).run ops).1.used ≤ cap ∧ ((new cap).run ops).1.size = cap := by
  have hinv := inv_reachable cap ops
  have hs : ((new cap).run ops).1.size = cap := by
    have := Mutagen.Proofs.Ring.run_size ops (new cap) (new_refines cap).1
    simpa [new] using this
  have hu := hinv.2.1
  exact ⟨abs_length _ hinv, by omega, hs⟩

/-! ## The fuel of the model's loops is never what stops them -/

/-- `Write`'s loop: with the fuel `Buffer.write` supplies (or any larger or
smaller amount above `len(data)`) the result is the same… -/
theorem writeLoop_fuel_irrelevant (b : Buffer) (h : b.Inv) (data : List UInt8) (result fuel : Nat)
    (hf : data.length < fuel) :
    writeLoop fuel b data result = writeLoop (data.length + 1) b data result :=
  writeLoop_fuel fuel (data.length + 1) b data result h hf (by omega)

/-- …and the loop ends with its own guard `len(data) > 0 && b.used != b.size` false. -/
theorem writeLoop_ends_by_guard (b : Buffer) (h : b.Inv) (data : List UInt8) (result : Nat) :
    ¬((writeLoop (data.length + 1) b data result).2.1.length > 0 ∧
      (writeLoop (data.length + 1) b data result).1.used ≠ (writeLoop (data.length + 1) b data result).1.size) :=
  writeLoop_guard_false _ b data result h (by omega)

/-- `Read`'s loop: any fuel above `len(buffer)` gives the same result… -/
theorem readLoop_fuel_irrelevant (b : Buffer) (h : b.Inv) (want : Nat) (acc : List UInt8) (fuel : Nat)
    (hf : want < fuel) :
    readLoop fuel b want acc = readLoop (want + 1) b want acc :=
  readLoop_fuel fuel (want + 1) b want acc h hf (by omega)

/-- …and the loop ends with its own guard `len(buffer) > 0 && b.used > 0`
false: the destination is full or the buffer is empty. -/
theorem readLoop_ends_by_guard (b : Buffer) (h : b.Inv) (want : Nat) (acc : List UInt8) :
    (readLoop (want + 1) b want acc).2.length = acc.length + want ∨
    (readLoop (want + 1) b want acc).1.used = 0 :=
  readLoop_guard_false _ b want acc h (by omega)

/-! ## Non-vacuity -/

/-- The invariant admits wrapped layouts (`[DATA2|FREE1|DATA1]`): data `3,4`
at the end of the storage continuing with `5` at its beginning. -/
example : (⟨[5, 0, 3, 4], 4, 2, 3⟩ : Buffer).Inv ∧ (⟨[5, 0, 3, 4], 4, 2, 3⟩ : Buffer).abs = [3, 4, 5] := by
  refine ⟨⟨rfl, by decide, .inl (by decide)⟩, by decide⟩

/-- Writing into the wrapped layout fills the gap and reports `ErrBufferFull`. -/
example : ((⟨[5, 0, 3, 4], 4, 2, 3⟩ : Buffer).write [6, 7]).2 = (1, .full) := by decide

/-- Capacity 0: every write is refused, every read is EOF. -/
example : ((new 0).write [1]).2 = (0, .full) ∧ ((new 0).read 1).2 = ([], .eof) := by decide

end Mutagen.Properties.C26
