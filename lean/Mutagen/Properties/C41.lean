import Mutagen.Model.Staging
/-!
# C41 — staging requests only what is missing and enforces limits
-/
namespace Mutagen.Properties.C41
open Mutagen.Model.Staging

/-- A well-formed staging request on an endpoint that has not scanned since the
last staging operation is refused. -/
theorem stage_requires_scan (s : St) (paths : List String) (digests : List Nat) (hint : Nat → Option String)
    (hro : s.readOnly = false) (hlen : paths.length = digests.length) (hne : paths.length ≠ 0)
    (h : s.sinceStage = false) :
    (stage s paths digests hint).2 = .err .noScan := by
  have hd : digests ≠ [] := by
    intro h0
    simp [h0] at hlen
    exact hne (by simp [hlen])
  simp [stage, hro, hlen, h, hd]

end Mutagen.Properties.C41
