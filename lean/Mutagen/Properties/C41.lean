import Mutagen.Model.Staging
import Mutagen.Proofs.Staging
import Mutagen.Proofs.StagingSeq
import Mutagen.Proofs.StagingCount
import Mutagen.Proofs.StagingDistinct
/-!
# C41 — staging requests only what is missing and enforces limits

Theorems about the model `Mutagen.Model.Staging` of the local endpoint's
`Stage` / `Transition` bookkeeping: for every root, digest cache, staging
store, request, choice of the reverse lookup map (`hint`), entry limit and
call sequence.

`avail root cache hint store p k` ("the content is available without
transfer") is: `(p, k)` is in the store, or the reverse lookup map yields a
cached path for digest `k` whose file *currently* has digest `k` (the copy is
committed under the digest of what was read and re-verified through the
store).
-/
namespace Mutagen.Properties.C41
open Mutagen.Model.Staging Mutagen.Proofs.Staging

/-- A well-formed staging request on an endpoint that has not scanned since the
last staging operation is refused. -/
theorem stage_requires_scan (s : St) (paths : List String) (digests : List Nat) (hint : Nat → Option String)
    (hro : s.readOnly = false) (hlen : paths.length = digests.length) (hne : paths.length ≠ 0)
    (h : s.sinceStage = false) :
    (stage s paths digests hint).2 = .err .noScan := by
  have hd : digests ≠ [] := by
    intro h0
    simp [h0] at hlen
    exact hne (by simp [hlen])
  simp [stage, hro, hlen, h, hd]

/-- **In-order subsequence.** Whatever `Stage` returns is an in-order
subsequence of the requested paths. -/
theorem stage_result_is_subsequence {s s' : St} {paths : List String} {digests : List Nat}
    {hint : Nat → Option String} {out : List String}
    (h : stage s paths digests hint = (s', .ok out)) : out.Sublist paths := by
  by_cases hne : paths.length = 0
  · have : out = [] := by
      unfold stage at h
      by_cases hro : s.readOnly = true
      · simp [hro] at h
      · by_cases hlen : paths.length ≠ digests.length
        · simp [hro, hlen] at h
        · simp only [hro, hlen, hne] at h
          simp at h
          split at h <;> simp at h
          exact h.2
    rw [this]
    exact List.nil_sublist _
  · obtain ⟨_, hlen, _, _, hout, _⟩ := stage_ok_elim h hne
    rw [hout]
    have := stageLoop_sublist s.root s.cache hint s.store (paths.zip digests)
    rwa [zip_map_fst paths digests hlen] at this

/-- … so the controller's own check (`filteredPathsAreSubset`, safety.go)
accepts it — and that check accepts exactly the in-order subsequences. -/
theorem filteredPathsAreSubset_iff (f o : List String) : filteredPathsAreSubset f o = true ↔ f.Sublist o := by
  constructor
  · intro h
    induction o generalizing f with
    | nil =>
      cases f with
      | nil => exact List.Sublist.slnil
      | cons a fs => simp [filteredPathsAreSubset] at h
    | cons b os ih =>
      cases f with
      | nil => exact List.nil_sublist _
      | cons a fs =>
        simp only [filteredPathsAreSubset] at h
        split at h
        · rename_i heq
          subst heq
          exact (ih fs h).cons_cons _
        · exact (ih _ h).cons _
  · intro h
    induction o generalizing f with
    | nil =>
      cases f with
      | nil => simp [filteredPathsAreSubset]
      | cons a fs => simp at h
    | cons b os ih =>
      cases f with
      | nil => simp [filteredPathsAreSubset]
      | cons a fs =>
        simp only [filteredPathsAreSubset]
        split
        · rename_i heq
          subst heq
          cases h with
          | cons _ h' => exact ih fs ((List.sublist_cons_self _ _).trans h')
          | cons_cons _ h' => exact ih fs h'
        · rename_i hne
          cases h with
          | cons _ h' => exact ih _ h'
          | cons_cons _ h' => exact absurd rfl hne

/-- **Exactly what is missing.** For a request with distinct paths (what
`TransitionDependencies` produces), `Stage` returns exactly the paths whose
content is neither staged already nor present in the root under a cached path
that still has the requested digest — in request order. -/
theorem stage_returns_exactly_the_missing {s s' : St} {paths : List String} {digests : List Nat}
    {hint : Nat → Option String} {out : List String}
    (h : stage s paths digests hint = (s', .ok out)) (hne : paths.length ≠ 0) (hnd : paths.Nodup) :
    out = ((paths.zip digests).filter fun e => !avail s.root s.cache hint s.store e.1 e.2).map (·.1) := by
  obtain ⟨_, hlen, _, _, hout, _⟩ := stage_ok_elim h hne
  rw [hout]
  apply stageLoop_exact
  rwa [zip_map_fst paths digests hlen]

/-- **What is not returned can be provided.** Every requested path that `Stage`
does not return is in the staging store under the requested digest when
`Stage` returns (so `Transition` will find it). -/
theorem stage_omitted_are_staged {s s' : St} {paths : List String} {digests : List Nat}
    {hint : Nat → Option String} {out : List String}
    (h : stage s paths digests hint = (s', .ok out)) (hne : paths.length ≠ 0) (hnd : paths.Nodup)
    (p : String) (k : Nat) (hmem : (p, k) ∈ paths.zip digests) (hout : p ∉ out) :
    staged s'.store p k = true := by
  obtain ⟨_, hlen, _, _, hout', hst, _⟩ := stage_ok_elim h hne
  rw [hst]
  apply stageLoop_omitted_staged _ _ _ _ _ (by rwa [zip_map_fst paths digests hlen]) p k hmem
  rw [← hout']
  exact hout

/-- **Staging never goes past the limit** (with fixes/C41.patch). An accepted,
non-empty staging request fits: the entry count of the last scan plus the
number of requested paths is at most the maximum entry count (in ℕ: no 64-bit
wrap-around is involved). -/
theorem stage_respects_limit {s s' : St} {paths : List String} {digests : List Nat}
    {hint : Nat → Option String} {out : List String}
    (h : stage s paths digests hint = (s', .ok out)) (hne : paths.length ≠ 0)
    (hmax : s.max ≠ 0) (hm64 : s.max < two64) :
    s.last + paths.length ≤ s.max := by
  obtain ⟨_, _, _, hg, _⟩ := stage_ok_elim h hne
  have hg' : ¬ (s.last > s.max ∨ u64sub s.max s.last < paths.length) := fun hx => hg ⟨hmax, hx⟩
  have h1 : s.last ≤ s.max := by
    by_contra hc
    exact hg' (Or.inl (by omega))
  have h2 : ¬ u64sub s.max s.last < paths.length := fun hx => hg' (Or.inr hx)
  unfold u64sub two64 at h2
  unfold two64 at hm64
  omega

/-- The effective maximum is never zero and fits in 64 bits, whatever is
configured below 2^64 (`0` selects the default, `math.MaxUint64`). -/
theorem effMax_bounds (cfg : Nat) (h : cfg < two64) : effMax cfg ≠ 0 ∧ effMax cfg < two64 := by
  unfold effMax two64 at *
  split <;> omega

/-- A transition on an endpoint that has not scanned since the last transition
is refused, and nothing changes. -/
theorem transition_requires_scan (s : St) (ts : List Change) (hro : s.readOnly = false)
    (h : s.sinceTrans = false) : transition s ts = (s, .err .noScan) := by
  simp [transition, hro, h]

/-- **Transitions never go past the limit.** If `Transition` executes the plan
(it neither refuses nor errors), then the planned entry count — the count of
the last scan, minus what each transition removes, plus what it creates,
computed as the code does with 64-bit arithmetic and the underflow check — is
at most the maximum; when no 64-bit wrap-around is involved it is the
arithmetic count `last - Σ old + Σ new`. -/
theorem transition_respects_limit {s s' : St} {ts : List Change} {rs : List (Option Tree)} {m : Bool}
    (h : transition s ts = (s', .ok rs m)) (hmax : s.max ≠ 0) :
    ∃ r, planCount s.last ts = some r ∧ r ≤ s.max ∧
      (s.last + totalNew ts < two64 → r + totalOld ts = s.last + totalNew ts) := by
  unfold transition at h
  by_cases hro : s.readOnly = true
  · simp [hro] at h
  · by_cases hsc : s.sinceTrans = true
    · cases hp : planCount s.last ts with
      | none => simp [hro, hsc, hmax, hp] at h
      | some r =>
        by_cases hlt : s.max < r
        · simp [hro, hsc, hmax, hp, hlt] at h
        · exact ⟨r, rfl, by omega, fun hb => planCount_spec _ _ _ hp hb⟩
    · simp [hro, hsc] at h

/-- **The disk obeys the limit after an executed, fully applied plan.** If the
scan count is the root's count (the scan just happened and nobody touched the
root), no 64-bit wrap-around is involved, and the plan is fully applied
(`Applied`: every transition yields its new entry; where an existing entry is
*replaced*, the path is free after the removal — `PathFree`, which holds for
roots whose directories have distinct names; that distinct-names invariant of
roots built by `insertAt` is the lemma not proved here), then the root's entry
count afterwards is exactly the planned count `last - Σ old + Σ new`, and it
is at most the maximum. -/
theorem transition_applied_within_limit {s s' : St} {ts : List Change} {rs : List (Option Tree)} {m : Bool}
    (h : transition s ts = (s', .ok rs m)) (hmax : s.max ≠ 0) (hscan : s.last = rootCount s.root)
    (hb : s.last + totalNew ts < two64)
    (happ : Applied (if s.storeInit then some s.store else none) s.root ts) :
    rootCount s'.root + totalOld ts = s.last + totalNew ts ∧ rootCount s'.root ≤ s.max := by
  obtain ⟨r, _, hle, hspec⟩ := transition_respects_limit h hmax
  have hr := hspec hb
  have hroot := transition_ok_root h
  have hcnt := applyAll_count _ _ _ happ
  rw [← hroot] at hcnt
  unfold rootCount at *
  constructor <;> omega

/-- **The same with distinct names as the only structural hypothesis.** If the
names within every directory of the root are distinct (`DistinctNames`, an
invariant of `insertAt` / `removeAt` / `updateC`: `dn_insertAt`, `dn_removeAt`,
`dn_update`, `dn_applyChange`) and the new entries of the plan have distinct
names too (in the code entries are maps, so this cannot fail), then `PathFree`
holds at every step (`subtree_removeAt_none`), and a plan whose transitions all
yield their new entries (`AppliedRes`) leaves exactly the planned entry count,
which is at most the maximum. -/
theorem transition_applied_within_limit_distinct {s s' : St} {ts : List Change} {rs : List (Option Tree)} {m : Bool}
    (h : transition s ts = (s', .ok rs m)) (hmax : s.max ≠ 0) (hscan : s.last = rootCount s.root)
    (hb : s.last + totalNew ts < two64)
    (hdn : DistinctNames s.root) (hnew : NewDistinct ts)
    (happ : AppliedRes (if s.storeInit then some s.store else none) s.root ts) :
    rootCount s'.root + totalOld ts = s.last + totalNew ts ∧ rootCount s'.root ≤ s.max :=
  transition_applied_within_limit h hmax hscan hb (applied_of_distinct _ _ _ hdn hnew happ)

/-- The transition also keeps the names distinct, so the hypothesis is there
again for the next cycle. -/
theorem transition_keeps_distinct_names {s s' : St} {ts : List Change} {rs : List (Option Tree)} {m : Bool}
    (h : transition s ts = (s', .ok rs m)) (hdn : DistinctNames s.root) (hnew : NewDistinct ts) :
    DistinctNames s'.root := by
  rw [transition_ok_root h]
  exact dn_applyAll _ _ _ hdn hnew

/-- Pure deletions and pure creations need no side condition: `PathFree` only
constrains transitions that replace an existing entry by a new one. -/
theorem pathFree_of_deletion_or_creation (root : Children) (t : Change)
    (h : t.old = none ∨ t.new = none) : PathFree root t := by
  intro h1 h2
  rcases h with h | h
  · simp [h] at h1
  · simp [h] at h2

/-- A refused plan (too many entries) leaves the root and the store untouched
and reports the old entries as results. -/
theorem transition_refusal_is_harmless {s s' : St} {ts : List Change} {rs : List (Option Tree)}
    (h : transition s ts = (s', .refused rs)) :
    s'.root = s.root ∧ s'.store = s.store ∧ rs = ts.map (·.old) := by
  unfold transition at h
  by_cases hro : s.readOnly = true
  · simp [hro] at h
  · by_cases hsc : s.sinceTrans = true
    · by_cases hmax : s.max = 0
      · simp [hro, hsc, hmax] at h
      · cases hp : planCount s.last ts with
        | none => simp [hro, hsc, hmax, hp] at h
        | some r =>
          by_cases hlt : s.max < r
          · simp [hro, hsc, hmax, hp, hlt] at h
            obtain ⟨h1, h2⟩ := h
            subst h1
            exact ⟨rfl, rfl, h2.symm⟩
          · simp [hro, hsc, hmax, hp, hlt] at h
    · simp [hro, hsc] at h

/-- **Scan before stage, over call sequences.** Start from any endpoint state
that has not scanned yet and run any sequence of calls (scans, staging
requests, peer transmissions, transitions, edits by other programs). If a
non-empty staging request is then accepted, the sequence contains a successful
scan after which no staging request got as far as the guard. -/
theorem stage_accepted_needs_scan (s0 : St) (h0 : s0.sinceStage = false) (ops : List Op)
    {s' : St} {paths : List String} {digests : List Nat} {hint : Nat → Option String} {out : List String}
    (h : stage (runOps s0 ops) paths digests hint = (s', .ok out)) (hne : paths.length ≠ 0) :
    ∃ pre post, ops = pre ++ Op.scan :: post ∧ (∃ n, (scan (runOps s0 pre)).2 = .ok n) ∧
      ∀ op ∈ post, op.reachesStageGuard = false := by
  obtain ⟨hro, _, hsc, _⟩ := stage_ok_elim h hne
  have hro0 : s0.readOnly = false := by rw [← (runOps_config s0 ops).1]; exact hro
  exact sinceStage_history s0 h0 hro0 ops hsc

/-- **Scan before transition, over call sequences.** Likewise, a transition
that is executed or refused for the entry limit (anything but the "no scan"
error) is preceded by a successful scan with no transition in between. -/
theorem transition_accepted_needs_scan (s0 : St) (h0 : s0.sinceTrans = false) (hro : s0.readOnly = false)
    (ops : List Op) (ts : List Change)
    (h : (transition (runOps s0 ops) ts).2 ≠ .err .noScan) :
    ∃ pre post, ops = pre ++ Op.scan :: post ∧ (∃ n, (scan (runOps s0 pre)).2 = .ok n) ∧
      ∀ op ∈ post, op.isTransition = false := by
  have hro' : (runOps s0 ops).readOnly = false := (runOps_config s0 ops).1.trans hro
  by_cases hsc : (runOps s0 ops).sinceTrans = true
  · exact sinceTrans_history s0 h0 hro ops hsc
  · exfalso
    apply h
    have : (runOps s0 ops).sinceTrans = false := by simpa using hsc
    rw [transition_requires_scan _ ts hro' this]

/-! Non-vacuity: an endpoint that has scanned (2 entries, limit 10) with one
path left staged by an interrupted cycle; a request for that path and another. -/

example :
    let s : St := { init 10 false [("a", .file 1)] with sinceStage := true, last := 2, store := [("q", 3)] }
    (stage s ["p", "q"] [1, 3] (fun _ => none)).2 = .ok ["p"] ∧ ["p", "q"].Nodup ∧
      s.last + 2 ≤ s.max := by
  decide

end Mutagen.Properties.C41
