import Mutagen.Proofs.Reconcile
import Mutagen.Proofs.Reach
import Mutagen.Proofs.History
import Mutagen.Proofs.HistoryGeneral
import Mutagen.Proofs.HistoryGaps
/-!
# C01 — two-way-safe synchronization never loses a modification

Theorems about the executable model `Mutagen.Model.Reconcile` of
`reconcile.go` (tied to `core.Reconcile` by the C01 correspondence stream).
Helper lemmas live in `Mutagen.Proofs.Reconcile`.

Vocabulary: `pget t q` — scalar fields (kind, executable, digest, target,
problem) of the entry of tree `t` at path `q`, `none` if there is none;
`SameTree a b` — same scalar fields at every path; `getPath t p` — sub-tree at
`p`. All statements hold for **arbitrary** trees (no validity hypotheses).
-/
namespace Mutagen.Properties.C01
open Mutagen.Model

/-- **No loss, per path.** For every change that two-way-safe reconciliation
plans on either endpoint `S ∈ {alpha, beta}`: the change's `Old` describes
exactly what `S` holds at the change's path, and every entry that exists on
`S` at or below that path (everything the change can delete or overwrite) is
recorded with identical kind, digest, executable bit and target at the same
path of the last-synchronized tree `A` — i.e. it is unchanged since the last
synchronization. -/
theorem twoWaySafe_no_loss (A alpha beta : Option Entry) :
    (∀ c ∈ (Reconcile A alpha beta .twoWaySafe).alpha,
      SameTree c.old (getPath alpha c.path) ∧
      ∀ q, c.path <+: q → pget alpha q = none ∨ pget alpha q = pget A q) ∧
    (∀ c ∈ (Reconcile A alpha beta .twoWaySafe).beta,
      SameTree c.old (getPath beta c.path) ∧
      ∀ q, c.path <+: q → pget beta q = none ∨ pget beta q = pget A q) :=
  ⟨protected_no_loss (reconcile_protects_alpha .twoWaySafe [] A alpha beta A (Or.inl rfl)),
   protected_no_loss (reconcile_protects_beta .twoWaySafe rfl [] A alpha beta A (Or.inl rfl))⟩

/-- The same in the form "obtained from the ancestor by deletions only", for
the sub-trees at the change's path. -/
theorem twoWaySafe_change_unmodified (A alpha beta : Option Entry) :
    (∀ c ∈ (Reconcile A alpha beta .twoWaySafe).alpha,
      DeletionsOnly (getPath A c.path) (getPath alpha c.path)) ∧
    (∀ c ∈ (Reconcile A alpha beta .twoWaySafe).beta,
      DeletionsOnly (getPath A c.path) (getPath beta c.path)) := by
  constructor
  · intro c hc
    obtain ⟨rel, hp, _, hd⟩ := reconcile_protects_alpha .twoWaySafe [] A alpha beta A (Or.inl rfl) c hc
    simp only [List.nil_append] at hp; rw [hp]; exact hd
  · intro c hc
    obtain ⟨rel, hp, _, hd⟩ := reconcile_protects_beta .twoWaySafe rfl [] A alpha beta A (Or.inl rfl) c hc
    simp only [List.nil_append] at hp; rw [hp]; exact hd

/-- **Conflict instead of overwrite** (at the point of disagreement): when the
synchronizable parts of both endpoints contain creations or modifications
relative to the ancestor, the two-way-safe handler plans no change at all and
reports exactly one conflict, rooted at the disagreeing path, that carries the
non-deletion changes of both sides. -/
theorem twoWaySafe_both_modified_conflict (path : Path) (a alpha beta : Option Entry)
    (hα : nonDeletion (diff path a (osync alpha)) ≠ [])
    (hβ : nonDeletion (diff path a (osync beta)) ≠ []) :
    handleBidirectional .twoWaySafe path a alpha beta =
      Plan.conflict path (nonDeletion (diff path a (osync alpha))) (nonDeletion (diff path a (osync beta))) := by
  have h1 : (diff path a (osync alpha)).isEmpty = false := by
    cases h : diff path a (osync alpha) with
    | nil => rw [h] at hα; simp [nonDeletion] at hα
    | cons _ _ => rfl
  have h2 : (diff path a (osync beta)).isEmpty = false := by
    cases h : diff path a (osync beta) with
    | nil => rw [h] at hβ; simp [nonDeletion] at hβ
    | cons _ _ => rfl
  have h3 : (nonDeletion (diff path a (osync alpha))).isEmpty = false := by
    cases h : nonDeletion (diff path a (osync alpha)) with
    | nil => exact absurd h hα
    | cons _ _ => rfl
  have h4 : (nonDeletion (diff path a (osync beta))).isEmpty = false := by
    cases h : nonDeletion (diff path a (osync beta)) with
    | nil => exact absurd h hβ
    | cons _ _ => rfl
  unfold handleBidirectional
  simp [h1, h2, h3, h4]

/-! Non-vacuity: a modification on alpha of content beta left alone is
propagated to beta (so the quantification over planned changes is not empty). -/
example : (Reconcile (some exampleFile1) (some exampleFile2) (some exampleFile1) .twoWaySafe).beta ≠ [] := by
  rw [example_modification_propagates]; simp

/-- **Conflict instead of overwrite, for the whole plan**: wherever the
recursion of two-way-safe reconciliation reaches a disagreement (`Reaches`: the
endpoints agree shallowly on every proper prefix of `rel`, differ at `rel`, and
nothing on the way is problematic or absent on both sides) at which the
synchronizable parts of *both* endpoints contain creations or modifications
relative to the ancestor passed down to that path, the plan of `Reconcile`
contains a conflict rooted there, and no alpha or beta change of the plan lies
at, above or below that path — both versions stay where they are. -/
theorem twoWaySafe_conflict (A alpha beta : Option Entry) (rel : Path) (hr : Reaches alpha beta rel)
    (hα : nonDeletion (diff rel (effAnc A alpha rel) (osync (getPath alpha rel))) ≠ [])
    (hβ : nonDeletion (diff rel (effAnc A alpha rel) (osync (getPath beta rel))) ≠ []) :
    (∃ c ∈ (Reconcile A alpha beta .twoWaySafe).conflicts, c.root = rel) ∧
    (∀ c ∈ (Reconcile A alpha beta .twoWaySafe).alpha, incomparable c.path rel) ∧
    (∀ c ∈ (Reconcile A alpha beta .twoWaySafe).beta, incomparable c.path rel) := by
  have hsub := (reconcile_sub .twoWaySafe rel [] A alpha beta hr).2.2
  have hH : handleDisagreement .twoWaySafe ([] ++ rel) (effAnc A alpha rel) (getPath alpha rel) (getPath beta rel) =
      Plan.conflict rel (nonDeletion (diff rel (effAnc A alpha rel) (osync (getPath alpha rel))))
        (nonDeletion (diff rel (effAnc A alpha rel) (osync (getPath beta rel)))) := by
    simp only [List.nil_append, handleDisagreement]
    exact twoWaySafe_both_modified_conflict rel _ _ _ hα hβ
  rw [hH] at hsub
  have hc := hsub ⟨rel, nonDeletion (diff rel (effAnc A alpha rel) (osync (getPath alpha rel))),
    nonDeletion (diff rel (effAnc A alpha rel) (osync (getPath beta rel)))⟩ (by simp [Plan.conflict])
  have hex := conflict_excludes_changes .twoWaySafe [] A alpha beta _ hc
  exact ⟨⟨_, hc, rfl⟩, hex.1, hex.2⟩

/-- The same against the last-synchronized tree itself: for a valid
synchronizable ancestor and valid phantom-free endpoints the ancestor passed
down to a reached disagreement is the ancestor's own sub-tree at that path. -/
theorem twoWaySafe_conflict_valid (A alpha beta : Option Entry) (rel : Path)
    (hA : ValidSync A) (hal : Valid alpha) (hbe : Valid beta)
    (hpα : onoPhantom alpha = true) (hpβ : onoPhantom beta = true) (hr : Reaches alpha beta rel)
    (hα : nonDeletion (diff rel (getPath A rel) (osync (getPath alpha rel))) ≠ [])
    (hβ : nonDeletion (diff rel (getPath A rel) (osync (getPath beta rel))) ≠ []) :
    (∃ c ∈ (Reconcile A alpha beta .twoWaySafe).conflicts, c.root = rel) ∧
    (∀ c ∈ (Reconcile A alpha beta .twoWaySafe).alpha, incomparable c.path rel) ∧
    (∀ c ∈ (Reconcile A alpha beta .twoWaySafe).beta, incomparable c.path rel) := by
  have e := effAnc_eq_getPath rel A alpha beta hA hal hbe hpα hpβ hr
  exact twoWaySafe_conflict A alpha beta rel hr (e ▸ hα) (e ▸ hβ)

/-! ## Histories (edit* ; cycle)*

`HState` = (last-synchronized tree, alpha, beta); a history is a list of steps
`editAlpha t` / `editBeta t` (the user replaces an endpoint's content by an
arbitrary tree) and `cycle` (a fully applied two-way-safe cycle: `Reconcile`,
both change lists applied exactly, the ancestor updated as in
`controller.go:synchronize` with ideal results); `hrun` runs a history. -/

/-- **No cycle of any history loses a modification**: after an arbitrary
history `pre` of edits and cycles from an arbitrary state, the next cycle only
deletes or replaces endpoint entries that the last-synchronized tree of that
moment records identically (no hypothesis on any tree). -/
theorem twoWaySafe_history_no_loss (s₀ : HState) (pre : List HStep) :
    (∀ q, pget (hrun .twoWaySafe s₀ (pre ++ [.cycle])).alpha q ≠ pget (hrun .twoWaySafe s₀ pre).alpha q →
      pget (hrun .twoWaySafe s₀ pre).alpha q = none ∨
      pget (hrun .twoWaySafe s₀ pre).alpha q = pget (hrun .twoWaySafe s₀ pre).anc q) ∧
    (∀ q, pget (hrun .twoWaySafe s₀ (pre ++ [.cycle])).beta q ≠ pget (hrun .twoWaySafe s₀ pre).beta q →
      pget (hrun .twoWaySafe s₀ pre).beta q = none ∨
      pget (hrun .twoWaySafe s₀ pre).beta q = pget (hrun .twoWaySafe s₀ pre).anc q) :=
  history_no_loss s₀ pre

/-- **What the last-synchronized tree means**: after a cycle on valid
phantom-free endpoints it records, at every path outside the cycle's conflicts
and outside unsynchronizable content, exactly the entry both endpoints now hold
(uses the C04 fixpoint/convergence theorem). -/
theorem twoWaySafe_cycle_records_synchronized (s : HState)
    (hal : Valid s.alpha) (hbe : Valid s.beta) (hpα : onoPhantom s.alpha = true) (hpβ : onoPhantom s.beta = true) :
    ∀ q, (∀ c ∈ (Reconcile s.anc s.alpha s.beta .twoWaySafe).conflicts, ¬ c.root <+: q) →
      NoUnsyncAlong (cycleStep .twoWaySafe s).alpha q → NoUnsyncAlong (cycleStep .twoWaySafe s).beta q →
      pget (cycleStep .twoWaySafe s).alpha q = pget (cycleStep .twoWaySafe s).anc q ∧
      pget (cycleStep .twoWaySafe s).beta q = pget (cycleStep .twoWaySafe s).anc q :=
  cycle_converges .twoWaySafe (Or.inl rfl) s hal hbe hpα hpβ

/-- **Content modified since its last synchronization is never deleted or
overwritten**: run any history `pre`, then a cycle (on valid phantom-free
endpoints), then arbitrary edits of both endpoints, then the next cycle. At
every path the first of the two cycles left synchronized, an entry that the
edits created or modified is still there, unchanged, after the second cycle. -/
theorem twoWaySafe_history (s₀ : HState) (pre : List HStep) (edits : List HStep)
    (he : ∀ x ∈ edits, x.isEdit = true) (q : Path)
    (hal : Valid (hrun .twoWaySafe s₀ pre).alpha) (hbe : Valid (hrun .twoWaySafe s₀ pre).beta)
    (hpα : onoPhantom (hrun .twoWaySafe s₀ pre).alpha = true)
    (hpβ : onoPhantom (hrun .twoWaySafe s₀ pre).beta = true)
    (hq : ∀ c ∈ (Reconcile (hrun .twoWaySafe s₀ pre).anc (hrun .twoWaySafe s₀ pre).alpha
        (hrun .twoWaySafe s₀ pre).beta .twoWaySafe).conflicts, ¬ c.root <+: q)
    (h1 : NoUnsyncAlong (hrun .twoWaySafe s₀ (pre ++ [.cycle])).alpha q)
    (h2 : NoUnsyncAlong (hrun .twoWaySafe s₀ (pre ++ [.cycle])).beta q) :
    (pget (hrun .twoWaySafe s₀ (pre ++ [.cycle] ++ edits)).alpha q ≠ none →
      pget (hrun .twoWaySafe s₀ (pre ++ [.cycle] ++ edits)).alpha q ≠
        pget (hrun .twoWaySafe s₀ (pre ++ [.cycle])).alpha q →
      pget (hrun .twoWaySafe s₀ (pre ++ [.cycle] ++ edits ++ [.cycle])).alpha q =
        pget (hrun .twoWaySafe s₀ (pre ++ [.cycle] ++ edits)).alpha q) ∧
    (pget (hrun .twoWaySafe s₀ (pre ++ [.cycle] ++ edits)).beta q ≠ none →
      pget (hrun .twoWaySafe s₀ (pre ++ [.cycle] ++ edits)).beta q ≠
        pget (hrun .twoWaySafe s₀ (pre ++ [.cycle])).beta q →
      pget (hrun .twoWaySafe s₀ (pre ++ [.cycle] ++ edits ++ [.cycle])).beta q =
        pget (hrun .twoWaySafe s₀ (pre ++ [.cycle] ++ edits)).beta q) := by
  have e1 : hrun .twoWaySafe s₀ (pre ++ [.cycle]) = cycleStep .twoWaySafe (hrun .twoWaySafe s₀ pre) := by
    simp [hrun, List.foldl_append, hstep]
  have e2 : hrun .twoWaySafe s₀ (pre ++ [.cycle] ++ edits) =
      hrun .twoWaySafe (cycleStep .twoWaySafe (hrun .twoWaySafe s₀ pre)) edits := by
    simp [hrun, List.foldl_append, hstep]
  have e3 : hrun .twoWaySafe s₀ (pre ++ [.cycle] ++ edits ++ [.cycle]) =
      cycleStep .twoWaySafe (hrun .twoWaySafe (cycleStep .twoWaySafe (hrun .twoWaySafe s₀ pre)) edits) := by
    simp [hrun, List.foldl_append, hstep]
  rw [e1] at h1 h2
  rw [e1, e2, e3]
  exact modified_since_sync_survives (hrun .twoWaySafe s₀ pre) hal hbe hpα hpβ edits he q hq h1 h2

/-- **A cycle in which a path lies under a conflict keeps or drops the
ancestor's record there** (every mode, any trees): if `q` is at or below the
root of a conflict of the cycle's plan, the ancestor after the cycle records at
`q` what it recorded before, or nothing. -/
theorem conflict_cycle_keeps_or_drops_record (mode : Mode) (s : HState) (q : Path)
    (h : ∃ c ∈ (Reconcile s.anc s.alpha s.beta mode).conflicts, c.root <+: q) :
    pget (cycleStep mode s).anc q = pget s.anc q ∨ pget (cycleStep mode s).anc q = none :=
  cycle_under_conflict_anc mode s q h

/-- Every state of a history whose edits install valid phantom-free trees
(`ValidSteps`) and whose cycles are fully applied has valid phantom-free
endpoints (exact application of a plan preserves endpoint validity). -/
theorem history_endpoints_valid (mode : Mode) (s₀ : HState) (h₀ : s₀.EndpointsValid) (steps : List HStep)
    (hs : ValidSteps steps) : (hrun mode s₀ steps).EndpointsValid :=
  hrun_endpointsValid mode steps s₀ h₀ hs

/-- **Content created or modified since the last synchronization of its path is
never deleted or overwritten — arbitrary gaps** (two-way-safe). Start from any
state with valid phantom-free endpoints and run any history `pre` of valid
edits and fully applied cycles. Let the next cycle leave the path `q`
synchronized (outside its conflicts and outside unsynchronizable content; then
both endpoints and the ancestor hold the same entry at `q` — first conjunct).
Let any further edits and cycles `mid` follow during which `q` is not
synchronized again because it lies under a conflict of every such cycle. Then
the next cycle leaves untouched every entry at `q` that exists and differs from
what `q` held when it was last synchronized. -/
theorem twoWaySafe_history_general (s₀ : HState) (h₀ : s₀.EndpointsValid) (pre mid : List HStep)
    (hpre : ValidSteps pre) (q : Path)
    (hq : ∀ c ∈ (Reconcile (hrun .twoWaySafe s₀ pre).anc (hrun .twoWaySafe s₀ pre).alpha
        (hrun .twoWaySafe s₀ pre).beta .twoWaySafe).conflicts, ¬ c.root <+: q)
    (h1 : NoUnsyncAlong (cycleStep .twoWaySafe (hrun .twoWaySafe s₀ pre)).alpha q)
    (h2 : NoUnsyncAlong (cycleStep .twoWaySafe (hrun .twoWaySafe s₀ pre)).beta q)
    (hmid : UnderConflictInCycles .twoWaySafe q (cycleStep .twoWaySafe (hrun .twoWaySafe s₀ pre)) mid) :
    let s₁ := cycleStep .twoWaySafe (hrun .twoWaySafe s₀ pre)
    let t := hrun .twoWaySafe s₁ mid
    (pget s₁.alpha q = pget s₁.anc q ∧ pget s₁.beta q = pget s₁.anc q) ∧
    (pget t.alpha q ≠ none → pget t.alpha q ≠ pget s₁.alpha q →
      pget (cycleStep .twoWaySafe t).alpha q = pget t.alpha q) ∧
    (pget t.beta q ≠ none → pget t.beta q ≠ pget s₁.beta q →
      pget (cycleStep .twoWaySafe t).beta q = pget t.beta q) :=
  history_general s₀ h₀ pre mid hpre q hq h1 h2 hmid

/-! ## Gap cycles: every reason for which a cycle does not synchronize a path

`GapCycle mode s q`: `q` lies at or below a conflict root of the cycle's plan,
or no planned change (ancestor, alpha or beta) installs an entry at `q`
(`InstallsNothingAt`). The second alternative covers a path near which nothing
is planned and a path at or below an untracked / problematic entry of an
endpoint. -/

/-- (b) A gap cycle keeps or drops the ancestor's record at the path. -/
theorem gap_cycle_keeps_or_drops_record (mode : Mode) (s : HState) (q : Path) (h : GapCycle mode s q) :
    pget (cycleStep mode s).anc q = pget s.anc q ∨ pget (cycleStep mode s).anc q = none :=
  gapCycle_anc_kept mode s q h

/-- Reason "unchanged": if nothing is planned at, above or below `q`, the cycle
leaves the entry at `q` untouched on both endpoints and in the ancestor ((a) and
(b)), and it is a gap cycle for `q`. -/
theorem gap_reason_nothing_planned (mode : Mode) (s : HState) (q : Path) (h : NothingPlannedNear mode s q) :
    GapCycle mode s q ∧
    pget (cycleStep mode s).alpha q = pget s.alpha q ∧ pget (cycleStep mode s).beta q = pget s.beta q ∧
      pget (cycleStep mode s).anc q = pget s.anc q :=
  ⟨Or.inr h.installsNothing, cycle_untouched_of_nothingNear mode s q h⟩

/-- Reason "conflict": under a conflict root no endpoint change is planned at,
above or below `q` — both endpoint entries at `q` are untouched ((a)) — and the
cycle is a gap cycle for `q` ((b): `conflict_cycle_keeps_or_drops_record`). -/
theorem gap_reason_conflict (mode : Mode) (s : HState) (q : Path)
    (h : ∃ c ∈ (Reconcile s.anc s.alpha s.beta mode).conflicts, c.root <+: q) :
    GapCycle mode s q ∧
    pget (cycleStep mode s).alpha q = pget s.alpha q ∧ pget (cycleStep mode s).beta q = pget s.beta q :=
  ⟨Or.inl h, cycle_untouched_under_conflict mode s q h⟩

/-- Reason "unsynchronizable": if `q` is at or below an untracked or problematic
entry of either (valid, phantom-free) endpoint, no planned change — ancestor or
endpoint, any mode — installs anything at `q`; the cycle is a gap cycle for `q`. -/
theorem gap_reason_unsynchronizable (mode : Mode) (s : HState) (hs : s.EndpointsValid) (q : Path)
    (h : UnsyncAlong s.alpha q ∨ UnsyncAlong s.beta q) : GapCycle mode s q :=
  gapCycle_of_unsync mode s hs q h

/-- **Content created or modified since the last synchronization of its path is
never deleted or overwritten — arbitrary gaps, weak gap hypothesis**
(two-way-safe): as `twoWaySafe_history_general`, but every cycle of the gap only
has to be a gap cycle for `q` (`GapCycles`): `q` under a conflict, or no planned
change installing an entry at `q` — nothing planned near `q`, or `q` at or below
an untracked / problematic entry (`gap_reason_*`). -/
theorem twoWaySafe_history_general_gaps (s₀ : HState) (h₀ : s₀.EndpointsValid) (pre mid : List HStep)
    (hpre : ValidSteps pre) (q : Path)
    (hq : ∀ c ∈ (Reconcile (hrun .twoWaySafe s₀ pre).anc (hrun .twoWaySafe s₀ pre).alpha
        (hrun .twoWaySafe s₀ pre).beta .twoWaySafe).conflicts, ¬ c.root <+: q)
    (h1 : NoUnsyncAlong (cycleStep .twoWaySafe (hrun .twoWaySafe s₀ pre)).alpha q)
    (h2 : NoUnsyncAlong (cycleStep .twoWaySafe (hrun .twoWaySafe s₀ pre)).beta q)
    (hmid : GapCycles .twoWaySafe q (cycleStep .twoWaySafe (hrun .twoWaySafe s₀ pre)) mid) :
    let s₁ := cycleStep .twoWaySafe (hrun .twoWaySafe s₀ pre)
    let t := hrun .twoWaySafe s₁ mid
    (pget s₁.alpha q = pget s₁.anc q ∧ pget s₁.beta q = pget s₁.anc q) ∧
    (pget t.alpha q ≠ none → pget t.alpha q ≠ pget s₁.alpha q →
      pget (cycleStep .twoWaySafe t).alpha q = pget t.alpha q) ∧
    (pget t.beta q ≠ none → pget t.beta q ≠ pget s₁.beta q →
      pget (cycleStep .twoWaySafe t).beta q = pget t.beta q) :=
  history_general_gap s₀ h₀ pre mid hpre q hq h1 h2 hmid

/-- `twoWaySafe_history_general` (gap cycles all under a conflict) is the special
case of `twoWaySafe_history_general_gaps`. -/
theorem twoWaySafe_history_general_corollary (s₀ : HState) (h₀ : s₀.EndpointsValid) (pre mid : List HStep)
    (hpre : ValidSteps pre) (q : Path)
    (hq : ∀ c ∈ (Reconcile (hrun .twoWaySafe s₀ pre).anc (hrun .twoWaySafe s₀ pre).alpha
        (hrun .twoWaySafe s₀ pre).beta .twoWaySafe).conflicts, ¬ c.root <+: q)
    (h1 : NoUnsyncAlong (cycleStep .twoWaySafe (hrun .twoWaySafe s₀ pre)).alpha q)
    (h2 : NoUnsyncAlong (cycleStep .twoWaySafe (hrun .twoWaySafe s₀ pre)).beta q)
    (hmid : UnderConflictInCycles .twoWaySafe q (cycleStep .twoWaySafe (hrun .twoWaySafe s₀ pre)) mid) :
    let s₁ := cycleStep .twoWaySafe (hrun .twoWaySafe s₀ pre)
    let t := hrun .twoWaySafe s₁ mid
    (pget s₁.alpha q = pget s₁.anc q ∧ pget s₁.beta q = pget s₁.anc q) ∧
    (pget t.alpha q ≠ none → pget t.alpha q ≠ pget s₁.alpha q →
      pget (cycleStep .twoWaySafe t).alpha q = pget t.alpha q) ∧
    (pget t.beta q ≠ none → pget t.beta q ≠ pget s₁.beta q →
      pget (cycleStep .twoWaySafe t).beta q = pget t.beta q) :=
  twoWaySafe_history_general_gaps s₀ h₀ pre mid hpre q hq h1 h2
    (GapCycles.of_underConflict .twoWaySafe q mid _ hmid)

end Mutagen.Properties.C01
