import Mutagen.Model.Symlink
import Mutagen.Proofs.Symlink
/-!
# C16 — portable symbolic links never point outside the root

`normalize` is the model of `normalizeSymbolicLinkAndEnsurePortable` **after**
`fixes/C16.patch` (an empty target component no longer counts as a descent);
`normalizeOrig` is the function as it stands in the unrepaired source. All
theorems quantify over every path (hence every link depth) and every target
(arbitrary byte strings).

Specification (`Model.Symlink.resolve`): lexical POSIX resolution of the target
from the directory that holds the link (`linkDir path`, a stack of names); `""`
and `"."` are no-ops, `".."` pops, a name pushes; popping the empty stack is
leaving the synchronization root (`none`).
-/
namespace Mutagen.Properties.C16
open Mutagen.Model.Symlink Mutagen.Proofs.Symlink

/-- **Main theorem.** An accepted target is returned unchanged and its lexical
resolution from the link's directory never leaves the root — not at the end and
not at any prefix of its component list. -/
theorem portable_stays_inside (path target t : Bytes) (h : normalize path target = .ok t) :
    t = target ∧ ∀ k, (resolve (linkDir path) ((splitSlash target).take k)).isSome := by
  obtain ⟨ht, _, _, _, _, _, hw⟩ := normalizeWith_ok h
  refine ⟨ht, ?_⟩
  have := walk_eq_resolve (splitSlash target) (linkDir path)
  rw [linkDir_length] at this
  unfold walk at this
  rw [hw] at this
  exact resolve_prefix _ _ this.symm

/-- The same for any directory stack of the link's depth (the names of the
link's ancestors are irrelevant, only their number matters). -/
theorem portable_stays_inside_any_dir (path target t : Bytes) (dir : List Bytes)
    (hd : dir.length = countSlash path) (h : normalize path target = .ok t) :
    ∀ k, (resolve dir ((splitSlash target).take k)).isSome := by
  obtain ⟨_, _, _, _, _, _, hw⟩ := normalizeWith_ok h
  have := walk_eq_resolve (splitSlash target) dir
  rw [hd] at this
  unfold walk at this
  rw [hw] at this
  exact resolve_prefix _ _ this.symm

/-- **Exact characterisation** (soundness and completeness of the depth walk):
a target is accepted iff it passes the five syntactic checks and its lexical
resolution stays inside the root. -/
theorem accepted_iff (path target : Bytes) :
    normalize path target = .ok target ↔
      (target ≠ [] ∧ target.length ≤ Mutagen.Facts.symlinkMaxTargetLength ∧
       target.contains colon = false ∧ target.contains backslash = false ∧
       target.head? ≠ some slash ∧ (resolve (linkDir path) (splitSlash target)).isSome) := by
  have hw := walk_eq_resolve (splitSlash target) (linkDir path)
  rw [linkDir_length] at hw
  unfold walk at hw
  constructor
  · intro h
    obtain ⟨_, h1, h2, h3, h4, h5, h6⟩ := normalizeWith_ok h
    exact ⟨h1, h2, h3, h4, h5, by rw [← hw]; exact h6⟩
  · rintro ⟨h1, h2, h3, h4, h5, h6⟩
    exact normalizeWith_of_clauses h1 h2 h3 h4 h5 (by rw [hw]; exact h6)

/-- Rejection theorems: empty, over-long, colon-containing, backslash-containing
and absolute targets are never accepted, at any link depth. -/
theorem rejects_empty (path : Bytes) : normalize path [] = .error .empty := by
  simp [normalize, normalizeWith]

theorem rejects_too_long (path target : Bytes) (h : target.length > Mutagen.Facts.symlinkMaxTargetLength) :
    ∃ e, normalize path target = .error e := by
  cases hn : normalize path target with
  | error e => exact ⟨e, rfl⟩
  | ok t => have := (normalizeWith_ok hn).2.2.1; omega

theorem rejects_colon (path target : Bytes) (h : colon ∈ target) :
    ∃ e, normalize path target = .error e := by
  cases hn : normalize path target with
  | error e => exact ⟨e, rfl⟩
  | ok t => have := (normalizeWith_ok hn).2.2.2.1; simp [h] at this

theorem rejects_backslash (path target : Bytes) (h : backslash ∈ target) :
    ∃ e, normalize path target = .error e := by
  cases hn : normalize path target with
  | error e => exact ⟨e, rfl⟩
  | ok t => have := (normalizeWith_ok hn).2.2.2.2.1; simp [h] at this

theorem rejects_absolute (path rest : Bytes) :
    ∃ e, normalize path (slash :: rest) = .error e := by
  cases hn : normalize path (slash :: rest) with
  | error e => exact ⟨e, rfl⟩
  | ok t => have := (normalizeWith_ok hn).2.2.2.2.2.1; simp at this

/-- The length limit used by the model is the regenerated Go constant and fits
the Windows bound the comment in the source refers to (< 248). -/
theorem length_limit_fact : Mutagen.Facts.symlinkMaxTargetLength < 248 := by decide

/-- A target acceptable for a link is acceptable for every link at least as deep. -/
theorem accepted_monotone_in_depth (p p' target t : Bytes) (hle : countSlash p ≤ countSlash p')
    (h : normalize p target = .ok t) : normalize p' target = .ok t := by
  obtain ⟨ht, h1, h2, h3, h4, h5, h6⟩ := normalizeWith_ok h
  subst ht
  refine normalizeWith_of_clauses h1 h2 h3 h4 h5 ?_
  exact walk_mono _ _ _ (by simp only [Int.ofNat_eq_natCast]; omega) h6

/-- Call site scan.go `symbolicLink`, portable mode: a link reported as a
symbolic link entry carries the on-disk target and stays inside the root. -/
theorem scan_link_portable (path target t : Bytes)
    (h : scanSymbolicLink path target true = .symlink t) :
    t = target ∧ ∀ k, (resolve (linkDir path) ((splitSlash target).take k)).isSome := by
  unfold scanSymbolicLink at h
  simp only [if_true] at h
  split at h
  · rename_i r hn
    cases h
    exact portable_stays_inside path target _ hn
  · cases h

/-- Call site transition.go `createSymbolicLink`: in portable mode the link is
created only if its target stays inside the root (and is in normal form); in
ignore mode it is never created. -/
theorem create_link_portable (path target : Bytes) (h : createGuard .portable path target = true) :
    normalize path target = .ok target ∧
    ∀ k, (resolve (linkDir path) ((splitSlash target).take k)).isSome := by
  unfold createGuard at h
  simp only at h
  split at h
  · rename_i r hn
    have := portable_stays_inside path target _ hn
    rw [this.1] at hn
    exact ⟨hn, this.2⟩
  · cases h

theorem create_link_ignore (path target : Bytes) : createGuard .ignore path target = false := rfl

/-- **The verdict for a link does not depend on earlier creations of the same
`Transition` call.** For any sequence of link creation requests, in any mode:
exactly the requests that pass the guard *at their own path* are created, and
exactly the others get a problem recorded. -/
theorem create_seq_verdict_independent (mode : Mode) (links : List (Bytes × Bytes)) :
    (createSeq mode links).created = links.filter (fun l => createGuard mode l.1 l.2) ∧
    (createSeq mode links).problems = (links.filter (fun l => !createGuard mode l.1 l.2)).map (·.1) := by
  have := createFold mode links { created := [], problems := [] }
  simpa [createSeq] using this

/-- Appending one more request after any history `pre`: its outcome is the
guard's verdict for that link alone. -/
theorem create_after_any_history (mode : Mode) (pre : List (Bytes × Bytes)) (l : Bytes × Bytes) :
    (createSeq mode (pre ++ [l])).created =
      (createSeq mode pre).created ++ (if createGuard mode l.1 l.2 then [l] else []) := by
  rw [(create_seq_verdict_independent mode (pre ++ [l])).1, (create_seq_verdict_independent mode pre).1]
  cases hg : createGuard mode l.1 l.2 <;> simp [List.filter_append, List.filter_cons, hg]

/-- **`create_link_portable`, per created link, for any sequence of creations in
one call**: in portable mode every link the call creates is in normal form and
resolves inside the root *at its own depth* — whatever was created before it
(same target string at other depths included). -/
theorem create_seq_portable (links : List (Bytes × Bytes)) (l : Bytes × Bytes)
    (h : l ∈ (createSeq .portable links).created) :
    normalize l.1 l.2 = .ok l.2 ∧
    ∀ k, (resolve (linkDir l.1) ((splitSlash l.2).take k)).isSome := by
  rw [(create_seq_verdict_independent .portable links).1] at h
  have hg : createGuard .portable l.1 l.2 = true := by
    have := (List.mem_filter.mp h).2
    simpa using this
  exact create_link_portable l.1 l.2 hg

/-- A request the guard rejects at its own path is never created and its path is
reported, whatever else the call does. -/
theorem create_seq_refused_reported (mode : Mode) (links : List (Bytes × Bytes)) (l : Bytes × Bytes)
    (hl : l ∈ links) (hg : createGuard mode l.1 l.2 = false) :
    l ∉ (createSeq mode links).created ∧ l.1 ∈ (createSeq mode links).problems := by
  obtain ⟨h1, h2⟩ := create_seq_verdict_independent mode links
  rw [h1, h2]
  refine ⟨?_, ?_⟩
  · intro hm
    have := (List.mem_filter.mp hm).2
    simp [hg] at this
  · exact List.mem_map.mpr ⟨l, List.mem_filter.mpr ⟨hl, by simp [hg]⟩, rfl⟩

/-- Non-vacuity: `sub/inner → ../s` (created) followed by `outer → ../s`
(refused although the same target string was just accepted one level deeper). -/
example :
    (createSeq .portable [([115, 117, 98, 47, 105], [46, 46, 47, 115]), ([111], [46, 46, 47, 115])]).created =
      [([115, 117, 98, 47, 105], [46, 46, 47, 115])] ∧
    (createSeq .portable [([115, 117, 98, 47, 105], [46, 46, 47, 115]), ([111], [46, 46, 47, 115])]).problems = [[111]] := by
  decide

/-- **The unrepaired walk is unsound** (why `fixes/C16.patch` is needed): the
source as it stands accepts `.//..` for a link directly in the root although
its resolution leaves the root, and `a//../..` likewise (DESIGN.md §9). -/
theorem orig_accepts_escaping_target :
    normalizeOrig [108] [46, 47, 47, 46, 46] = .ok [46, 47, 47, 46, 46] ∧
    resolve (linkDir [108]) (splitSlash [46, 47, 47, 46, 46]) = none ∧
    normalizeOrig [108] [97, 47, 47, 46, 46, 47, 46, 46] = .ok [97, 47, 47, 46, 46, 47, 46, 46] ∧
    resolve (linkDir [108]) (splitSlash [97, 47, 47, 46, 46, 47, 46, 46]) = none :=
  ⟨rfl, rfl, rfl, rfl⟩

/-- The repaired function rejects both witnesses. -/
theorem repaired_rejects_witnesses :
    normalize [108] [46, 47, 47, 46, 46] = .error .outside ∧
    normalize [108] [97, 47, 47, 46, 46, 47, 46, 46] = .error .outside :=
  ⟨rfl, rfl⟩

/-- Non-vacuity: a deep target with `..`, `.` and empty components is accepted
at depth 1 (`d/l` → `../a/.//b`) and the hypotheses of the main theorem hold. -/
example : normalize [100, 47, 108] [46, 46, 47, 97, 47, 46, 47, 47, 98] = .ok [46, 46, 47, 97, 47, 46, 47, 47, 98] :=
  rfl

example : resolve (linkDir [100, 47, 108]) (splitSlash [46, 46, 47, 97, 47, 46, 47, 47, 98]) = some [[98], [97]] := by
  decide

end Mutagen.Properties.C16
