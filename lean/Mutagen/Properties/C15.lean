import Mutagen.Model.IgnoreDocker
import Mutagen.Model.DockerSpec
import Mutagen.Proofs.DockerWalk2
/-!
# C15 — Docker-style ignores vs Docker's build-context semantics

Everything is proved over an **arbitrary pattern type `α`**, arbitrary exclusion
flags `excl`, arbitrary pattern texts `text` (used only for the literal
"exclusion pattern has this directory as a prefix" test) and an **arbitrary
per-pattern match** `m : α → path → Bool`, for every pattern list and every
tree.

* `scanRoot (matchesForMutagen …)` + `reifyRoot` is Mutagen's side (scan.go
  `directory` with the ignore mask, patternmatcher.go `MatchesForMutagen`,
  phantom.go `reifyPhantomDirectories`);
* `dockerWalk` is Docker's side (upstream `MatchesOrParentMatches` + the
  directory rule of moby's archive walk);
* `specLeaves` / `dockerSpecLeaves` are the per-path, non-recursive
  characterisations (`Model/DockerSpec`).

The statement of C15 ("the synchronized files and links are exactly Docker's")
is **false without a hypothesis** (`inversion_refutes_equality`) and **true under
`noDepthOrderInversion`** (`mutagen_walk_eq_docker_walk`): the deviation class
is exactly the one the check reports as `class=depth-order-inversion`.
-/
namespace Mutagen.Properties.C15
open Mutagen.Model.IgnoreCore Mutagen.Model.IgnoreDocker Mutagen.Model.DockerSpec
open Mutagen.Proofs.IgnoreDocker Mutagen.Proofs.DockerWalk Mutagen.Proofs.DockerWalk2

/-- `MatchesForMutagen`'s status is what the last pattern matching *this path*
says (the short-circuit loop is an optimisation only). -/
theorem docker_status_spec {α : Type} (excl : α → Bool) (text : α → Str) (m : α → Str → Bool) (ps : List α)
    (path : Str) (dir : Bool) :
    (matchesForMutagen excl text m ps path dir).1 = statusAt excl m ps path :=
  ign_status excl text m ps path dir

/-- Traversal continues into a directory that is not explicitly re-included iff
some exclusion pattern has it as a literal prefix; never into a non-directory. -/
theorem docker_continue_spec {α : Type} (excl : α → Bool) (text : α → Str) (m : α → Str → Bool) (ps : List α)
    (path : Str) :
    (matchesForMutagen excl text m ps path true).2 =
        (decide (statusAt excl m ps path ≠ .unignored) && exclusionPrefix excl text ps path) ∧
    (matchesForMutagen excl text m ps path false).2 = false :=
  ⟨ign_cont_dir excl text m ps path, ign_cont_file excl text m ps path⟩

/-- Upstream `MatchesOrParentMatches`: the last pattern matching the path *or any
of its parents* wins. -/
theorem mopm_spec {α : Type} (excl : α → Bool) (m : α → Str → Bool) (ps : List α) (path : Str) (parents : List Str) :
    matchesOrParentMatches excl m ps path parents = skipAt excl m ps path parents :=
  mopm_eq_skipAt excl m ps path parents

/-- **`mutagen_walk_characterised`.** The file/link leaves of the reified scan
are exactly the nodes on which the deepest matched prefix is not an ignoring
one and every masked ancestor is a literal prefix of an exclusion pattern —
whatever the ancestor snapshot is. -/
theorem mutagen_walk_characterised {α : Type} (excl : α → Bool) (text : α → Str) (m : α → Str → Bool)
    (ps : List α) (anc : Option Anc) (children : List (Str × Node)) :
    leavesOf [] (reifyRoot anc (scanRoot (matchesForMutagen excl text m ps) children)).1 =
      specLeaves excl text m ps children := by
  unfold reifyRoot scanRoot
  simp only
  rw [(reify_spec [] anc _).2.1]
  simp only [leavesOf]
  have := scanChildren_char excl text m ps children [] [] rfl
  rw [show sel (mutagenIncl excl text m ps) =
    (fun n => if mutagenIncl excl text m ps n.chain n.path then leafOf n else none) from rfl] at this
  simpa [maskAfter, specLeaves, allNodes] using this

/-- **`docker_walk_characterised`.** The file/link leaves Docker's walk puts into
the build context are exactly the nodes on which the last pattern matching the
path or any ancestor is not an ignoring one and every skipped ancestor is a
literal prefix of an exclusion pattern. -/
theorem docker_walk_characterised {α : Type} (excl : α → Bool) (text : α → Str) (m : α → Str → Bool)
    (ps : List α) (children : List (Str × Node)) :
    (dockerWalk excl text m ps children).filter isLeaf = dockerSpecLeaves excl text m ps children := by
  unfold dockerWalk
  have := dockerChildren_char excl text m ps children [] [] rfl
  rw [show sel (dockerIncl excl text m ps) =
    (fun n => if dockerIncl excl text m ps n.chain n.path then leafOf n else none) from rfl] at this
  simpa [dockerSpecLeaves, allNodes] using this

/-- The per-node heart of the equality: without an inversion along its chain a
node is selected by both characterisations or by neither. -/
theorem deepest_wins_eq_last_wins {α : Type} (excl : α → Bool) (text : α → Str) (m : α → Str → Bool) (ps : List α)
    (chain : List Str) (x : Str) (h : allOk (noInversionAt excl m ps) [] (chain ++ [x]) = true) :
    mutagenIncl excl text m ps chain x = dockerIncl excl text m ps chain x :=
  incl_eq excl text m ps chain x h

/-- **`mutagen_walk_eq_docker_walk`.** Under the decidable hypothesis
`noDepthOrderInversion`, the synchronized files and links are exactly the files
and links of Docker's build context — for every pattern list, every match
predicate, every tree and every ancestor. -/
theorem mutagen_walk_eq_docker_walk {α : Type} (excl : α → Bool) (text : α → Str) (m : α → Str → Bool)
    (ps : List α) (anc : Option Anc) (children : List (Str × Node))
    (h : noDepthOrderInversion excl m ps children = true) :
    leavesOf [] (reifyRoot anc (scanRoot (matchesForMutagen excl text m ps) children)).1 =
      (dockerWalk excl text m ps children).filter isLeaf := by
  rw [mutagen_walk_characterised, docker_walk_characterised]
  exact specLeaves_eq_dockerSpecLeaves excl text m ps children h

/-- **`inversion_refutes_equality`.** The hypothesis is necessary: patterns
`["!a/b", "a"]` (literal matching), tree `a/b`. Mutagen synchronizes `a/b`,
Docker's build context is empty, and `noDepthOrderInversion` is false. -/
theorem inversion_refutes_equality :
    let excl : Bool × Str → Bool := fun p => p.1
    let text : Bool × Str → Str := fun p => p.2
    let m : Bool × Str → Str → Bool := fun p path => p.2 == path
    let ps : List (Bool × Str) := [(true, ['a', '/', 'b']), (false, ['a'])]
    let tree : List (Str × Node) := [(['a'], .dir [(['b'], .file)])]
    leavesOf [] (reifyRoot none (scanRoot (matchesForMutagen excl text m ps) tree)).1 = [.file ['a', '/', 'b']] ∧
    (dockerWalk excl text m ps tree).filter isLeaf = [] ∧
    noDepthOrderInversion excl m ps tree = false := by
  decide

/-- The mirror image: `["*/b", "!a"]` — Docker re-includes `a/b` through its
parent, Mutagen does not. (`*/b` is modelled by "ends in /b".) -/
theorem inversion_refutes_equality_mirror :
    let excl : Bool × Str → Bool := fun p => p.1
    let text : Bool × Str → Str := fun p => p.2
    let m : Bool × Str → Str → Bool := fun p path =>
      if p.2 = ['*', '/', 'b'] then path == ['a', '/', 'b'] else p.2 == path
    let ps : List (Bool × Str) := [(false, ['*', '/', 'b']), (true, ['a'])]
    let tree : List (Str × Node) := [(['a'], .dir [(['b'], .file)])]
    leavesOf [] (reifyRoot none (scanRoot (matchesForMutagen excl text m ps) tree)).1 = [] ∧
    (dockerWalk excl text m ps tree).filter isLeaf = [.file ['a', '/', 'b']] ∧
    noDepthOrderInversion excl m ps tree = false := by
  decide

/-- Non-vacuity of the equality theorem: the regular order `["a", "!a/b"]` has no
inversion, needs a phantom directory, and both sides select `a/b` but not `a/c`. -/
example :
    let excl : Bool × Str → Bool := fun p => p.1
    let text : Bool × Str → Str := fun p => p.2
    let m : Bool × Str → Str → Bool := fun p path => p.2 == path
    let ps : List (Bool × Str) := [(false, ['a']), (true, ['a', '/', 'b'])]
    let tree : List (Str × Node) := [(['a'], .dir [(['b'], .file), (['c'], .file)])]
    noDepthOrderInversion excl m ps tree = true ∧
    (dockerWalk excl text m ps tree).filter isLeaf = [.file ['a', '/', 'b']] := by
  decide

/-- **`reify_noPhantom`**: no phantom directory survives reification. -/
theorem reify_noPhantom (anc : Option Anc) (e : SEntry) : noPhantom (reify anc e).1 = true :=
  (reify_spec [] anc e).1

/-- Reification never changes the set of synchronized files and links. -/
theorem reify_preserves_leaves (path : Str) (anc : Option Anc) (e : SEntry) :
    leavesOf path (reify anc e).1 = leavesOf path e :=
  (reify_spec path anc e).2.1

/-- **`reify_counts`**: the directory count reification returns is the number of
directories in the reified entry. -/
theorem reify_counts (anc : Option Anc) (e : SEntry) : (reify anc e).2.2 = dirCount (reify anc e).1 :=
  (reify_spec [] anc e).2.2.1

/-- The "tracked content at or below" flag is the specification `synchronized`. -/
theorem reify_tracked_iff_synchronized (anc : Option Anc) (e : SEntry) :
    (reify anc e).2.1 = synchronized anc e :=
  (reify_spec [] anc e).2.2.2.1

/-- **`excluded_dir_kept_iff`**: an excluded (phantom) directory is synchronized
(becomes a directory) iff it holds synchronized content or the ancestor had a
directory there; otherwise it becomes untracked (and its contents are dropped). -/
theorem excluded_dir_kept_iff (anc : Option Anc) (cs : List (Str × SEntry)) :
    ((reify anc (.dir true cs)).1 = .dir false (reifyChildren anc cs).1 ↔
        (anySynchronized anc cs = true ∨ ancIsDir anc = true)) ∧
    ((reify anc (.dir true cs)).1 = .untracked ↔
        ¬ (anySynchronized anc cs = true ∨ ancIsDir anc = true)) := by
  have h4 := (reifyChildren_spec [] anc cs).2.2.2.1
  rw [reify_dir, h4]
  by_cases h : (anySynchronized anc cs || ancIsDir anc) = true
  · have h' : anySynchronized anc cs = true ∨ ancIsDir anc = true := by simpa using h
    simp [h, h']
  · have hf : (anySynchronized anc cs || ancIsDir anc) = false := by simpa using h
    have h' : ¬ (anySynchronized anc cs = true ∨ ancIsDir anc = true) := by simpa using hf
    simp [hf, h']

end Mutagen.Properties.C15
