import Mutagen.Proofs.Store
import Mutagen.Proofs.TransitionExact
/-!
# C10 — files written into a root always carry the planned content

Store part: the content-addressed store never holds, at the location named by
a digest, content with another digest — whatever sequence of operations is
performed on it, whatever the rsync receiver is fed, whichever renames fail.
No collision-freedom assumption on `H` or on the path hash is needed (the
digest is part of the location).
-/
namespace Mutagen.Properties.C10
open Mutagen.Model.Store Mutagen.Proofs.Store

/-- A store over an absent (or foreign, non-directory) root satisfies the invariant. -/
theorem fresh_store_inv (P : Params) (maxSize : Nat) : StoreInv P { maxSize := maxSize } := by
  intro loc c h
  simp [fileAt] at h

/-- **Store invariant.** After any sequence of Initialize / Allocate / Write /
Commit (with or without a failing rename) / Discard / Contains / Path /
Finalize calls and foreign interference with prefix names or the root, every
file at the store location for (path, digest) has content hashing to digest.
Hypothesis: the invariant holds initially (a pre-existing storage root written
by something other than a store is outside the claim). -/
theorem store_invariant (P : Params) (s : State) (cmds : List Cmd) (h : StoreInv P s) :
    ∀ loc c, fileAt (run P s cmds) loc = some c → P.H c = loc.1 :=
  inv_run P s cmds h

/-- The same from scratch: no hypothesis at all. -/
theorem store_invariant_fresh (P : Params) (maxSize : Nat) (cmds : List Cmd) :
    ∀ loc c, fileAt (run P { maxSize := maxSize } cmds) loc = some c → P.H c = loc.1 :=
  inv_run P _ cmds (fresh_store_inv P maxSize)

/-- `Contains(path, digest) = true` implies that the location `Path(path,
digest)` provides holds content with exactly that digest. -/
theorem contains_sound (P : Params) (s : State) (p : String) (digest : Bytes) (h : StoreInv P s)
    (hc : contains P s p digest = (.ok, true)) :
    ∃ c, fileAt s (digest, P.ph p) = some c ∧ P.H c = digest := by
  cases hr : s.root with
  | dir d =>
    cases hf : Mutagen.Model.TFS.aget (digest, P.ph p) d.files with
    | some c =>
      have hfa : fileAt s (digest, P.ph p) = some c := by simp [fileAt, hr, hf]
      exact ⟨c, hfa, h (digest, P.ph p) c hfa⟩
    | none => exfalso; unfold contains at hc; grind
  | absent => exfalso; unfold contains at hc; grind
  | nondir => exfalso; unfold contains at hc; grind

/-- **The receiver cannot commit a wrong name.** Whatever transmissions the
rsync receiver is fed (corrupt data, bad block references, stale or unreadable
bases, truncated or aborted streams, size-limit and rename failures), after it
is finalized the store still satisfies the invariant: a damaged transfer is
stored under the digest of what was actually written, never under the
expected one. -/
theorem receiver_burn_safe (P : Params) (r : Recv) (s : State) (msgs : List (Msg × Bool)) (h : StoreInv P s) :
    ∀ loc c, fileAt (receiveAll P r s msgs).2 loc = some c → P.H c = loc.1 :=
  inv_receiveAll P msgs r s h

/-- **Every file moved into the root carries the planned digest.** For
`findAndMoveStagedFileIntoPlace` (the whole of `createFile`, and the
replacement step of `swapFile`), with a staging area in which every file
hashes to the digest it is staged under (what the store invariant gives), for
every fault oracle including the cross-device fallback:
* if the move succeeds, the file now at `parent/name` has content hashing to
  the digest of the plan's entry;
* if nothing is staged for (path, digest), the move fails and (with a non-zero
  permission mode) the missing-files flag is set;
* the staging area stays honest. -/
theorem transition_file_digest (H : List UInt8 → List UInt8) (env : Mutagen.Model.TFS.Env)
    (htmp : ∀ k l, Mutagen.Model.TFS.isTemporaryName (env.tmpName k l) = true)
    (st : Mutagen.Model.TFS.St) (path : Mutagen.Model.Path) (target : Mutagen.Model.Entry)
    (parent : Mutagen.Model.TFS.Handle) (name : Mutagen.Model.Name)
    (hname : Mutagen.Model.TFS.isTemporaryName name = false) (replace : Bool) (r : Option String)
    (st' : Mutagen.Model.TFS.St)
    (honest : ∀ k f, Mutagen.Model.TFS.aget k st.staged = some f → H f.data = k.2)
    (h : Mutagen.Model.TFS.findAndMove env st path target parent name replace = (r, st')) :
    (r = none → ∃ d perm m i, Mutagen.Proofs.FS.sget st'.fs (parent ++ [name]) = some (.file d perm m i) ∧
      H d = target.props.digest) ∧
    (Mutagen.Model.TFS.aget (path, target.props.digest) st.staged = none →
      env.provideErr path target.props.digest = false →
      r ≠ none ∧ (Mutagen.Proofs.FS.fileModeOf env target % 512 ≠ 0 → st'.missing = true)) ∧
    (∀ k f, Mutagen.Model.TFS.aget k st'.staged = some f → H f.data = k.2) := by
  obtain ⟨_, hs, _, hm, hmiss⟩ :=
    Mutagen.Proofs.FS.findAndMove_eff env htmp st path target parent name hname replace r st' h
  refine ⟨?_, hmiss, ?_⟩
  · intro hr
    obtain ⟨sf, hsf, perm, m, i, hg, _⟩ := hm hr
    exact ⟨sf.data, perm, m, i, hg, honest _ sf hsf⟩
  · intro k f hk
    obtain ⟨f0, hk0, hd⟩ := hs k f hk
    rw [hd]; exact honest k f0 hk0

/-- Non-vacuity: a store that has committed `[1,2]` under some path holds it
at the location of its digest. -/
example :
    fileAt (run { H := fun d => d.reverse ++ [7], ph := fun _ => [9] } { maxSize := 10 }
      [.init, .allocate, .write 0 [1, 2], .commit 0 "p" false]) ([2, 1, 7], [9]) = some [1, 2] := by
  decide

end Mutagen.Properties.C10
