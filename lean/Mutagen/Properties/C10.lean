import Mutagen.Proofs.Store
/-!
# C10 — files written into a root always carry the planned content

Store part: the content-addressed store never holds, at the location named by
a digest, content with another digest — whatever sequence of operations is
performed on it, whatever the rsync receiver is fed, whichever renames fail.
No collision-freedom assumption on `H` or on the path hash is needed (the
digest is part of the location).
-/
namespace Mutagen.Properties.C10
open Mutagen.Model.Store Mutagen.Proofs.Store

/-- A store over an absent (or foreign, non-directory) root satisfies the invariant. -/
theorem fresh_store_inv (P : Params) (maxSize : Nat) : StoreInv P { maxSize := maxSize } := by
  intro loc c h
  simp [fileAt] at h

/-- **Store invariant.** After any sequence of Initialize / Allocate / Write /
Commit (with or without a failing rename) / Discard / Contains / Path /
Finalize calls and foreign interference with prefix names or the root, every
file at the store location for (path, digest) has content hashing to digest.
Hypothesis: the invariant holds initially (a pre-existing storage root written
by something other than a store is outside the claim). -/
theorem store_invariant (P : Params) (s : State) (cmds : List Cmd) (h : StoreInv P s) :
    ∀ loc c, fileAt (run P s cmds) loc = some c → P.H c = loc.1 :=
  inv_run P s cmds h

/-- The same from scratch: no hypothesis at all. -/
theorem store_invariant_fresh (P : Params) (maxSize : Nat) (cmds : List Cmd) :
    ∀ loc c, fileAt (run P { maxSize := maxSize } cmds) loc = some c → P.H c = loc.1 :=
  inv_run P _ cmds (fresh_store_inv P maxSize)

/-- `Contains(path, digest) = true` implies that the location `Path(path,
digest)` provides holds content with exactly that digest. -/
theorem contains_sound (P : Params) (s : State) (p : String) (digest : Bytes) (h : StoreInv P s)
    (hc : contains P s p digest = (.ok, true)) :
    ∃ c, fileAt s (digest, P.ph p) = some c ∧ P.H c = digest := by
  cases hr : s.root with
  | dir d =>
    cases hf : Mutagen.Model.TFS.aget (digest, P.ph p) d.files with
    | some c =>
      have hfa : fileAt s (digest, P.ph p) = some c := by simp [fileAt, hr, hf]
      exact ⟨c, hfa, h (digest, P.ph p) c hfa⟩
    | none => exfalso; unfold contains at hc; grind
  | absent => exfalso; unfold contains at hc; grind
  | nondir => exfalso; unfold contains at hc; grind

/-- **The receiver cannot commit a wrong name.** Whatever transmissions the
rsync receiver is fed (corrupt data, bad block references, stale or unreadable
bases, truncated or aborted streams, size-limit and rename failures), after it
is finalized the store still satisfies the invariant: a damaged transfer is
stored under the digest of what was actually written, never under the
expected one. -/
theorem receiver_burn_safe (P : Params) (r : Recv) (s : State) (msgs : List (Msg × Bool)) (h : StoreInv P s) :
    ∀ loc c, fileAt (receiveAll P r s msgs).2 loc = some c → P.H c = loc.1 :=
  inv_receiveAll P msgs r s h

/-- Non-vacuity: a store that has committed `[1,2]` under some path holds it
at the location of its digest. -/
example :
    fileAt (run { H := fun d => d.reverse ++ [7], ph := fun _ => [9] } { maxSize := 10 }
      [.init, .allocate, .write 0 [1, 2], .commit 0 "p" false]) ([2, 1, 7], [9]) = some [1, 2] := by
  decide

end Mutagen.Properties.C10
