import Mutagen.Proofs.RsyncIdent
import Mutagen.Proofs.RsyncWeak
import Mutagen.Proofs.RsyncRoll
/-!
# C19 — rsync deltas reconstruct the target exactly

Theorems about the executable model `Mutagen.Model.Rsync` of
pkg/synchronization/rsync/engine.go, for **every** base, target, block size
`> 0` and maximum data operation size, with the strong hash an arbitrary
function `H : List UInt8 → D`.

* `signature H base bs` models `Engine.BytesSignature`,
* `deltifyBytes H target sig maxOp` models `Engine.DeltifyBytes` (operation list
  and how the run ended),
* `patchBytes base sig ops` models `Engine.PatchBytes` (`none` = error).

The reconstruction theorem carries the explicit hypothesis `NoCollision`: the
strong hash does not collide between a block of the base and an equally long
contiguous window of the target. It is satisfiable (any injective `H`, e.g. the
identity: `noCollision_of_injective`, and see the concrete example) and it is
necessary: `reconstruction_needs_no_collision` exhibits a colliding `H` for
which the patched result differs from the target. This is inherent to rsync.
-/
namespace Mutagen.Properties.C19
open Mutagen.Model.Rsync Mutagen.Proofs.Rsync

variable {D : Type} [DecidableEq D] (H : List UInt8 → D)

/-- **Reconstruction.** For every base, target, block size `> 0` and maximum
data operation size: if `H` does not collide between base blocks and target
windows, `Deltify` ends normally and applying its operations to the base
reproduces the target byte for byte (and `Patch` reports no error). -/
theorem patch_deltify (base target : List UInt8) (blockSize : Nat) (hbs : 0 < blockSize)
    (maxDataOpSize : Nat) (hnc : NoCollision H base blockSize target) :
    (deltifyBytes H target (signature H base blockSize) maxDataOpSize).2 = .ok ∧
    patchBytes base (signature H base blockSize)
      (deltifyBytes H target (signature H base blockSize) maxDataOpSize).1 = some target := by
  rw [deltifyBytes_eq_plan]
  refine ⟨?_, reconstruct H base target blockSize hbs maxDataOpSize hnc⟩
  apply plan_exit_ok
  by_cases hb : base = []
  · left; subst hb; simp [signature_empty]
  · right; exact (signature_nonempty H base blockSize hbs hb).2.1.bs_pos

/-- The hypothesis of `patch_deltify` holds for every injective strong hash. -/
theorem noCollision_of_injective (hinj : ∀ a b, H a = H b → a = b) (base target : List UInt8)
    (blockSize : Nat) : NoCollision H base blockSize target :=
  fun _ _ _ _ _ h => hinj _ _ h

/-- **Every emitted operation is well formed**, for every signature (valid or
not), target and size limit: it passes `Operation.EnsureValid`; a block
operation references a non-empty block range inside the signature; a data
operation carries no block range. -/
theorem ops_wellformed (target : List UInt8) (sig : Signature D) (maxDataOpSize : Nat) :
    ∀ op ∈ (deltifyBytes H target sig maxDataOpSize).1,
      op.ensureValid = true ∧
      (op.data = [] → 0 < op.count ∧ op.start + op.count ≤ sig.hashes.length) ∧
      (op.data ≠ [] → op.start = 0 ∧ op.count = 0) := by
  rw [deltifyBytes_eq_plan]
  intro op hop
  have h := plan_ok H target sig maxDataOpSize op hop
  refine ⟨h.ensureValid, ?_, ?_⟩
  · intro hd
    rcases h with ⟨h1, _⟩ | ⟨_, h2, h3⟩
    · simp [hd] at h1
    · exact ⟨h2, h3⟩
  · intro hd
    rcases h with ⟨_, _, h3, h4⟩ | ⟨h1, _⟩
    · exact ⟨h3, h4⟩
    · exact absurd h1 hd

/-- **Data operations never exceed the limit** (`DefaultMaximumDataOperationSize`
when `0` is passed). -/
theorem data_ops_bounded (target : List UInt8) (sig : Signature D) (maxDataOpSize : Nat) :
    ∀ op ∈ (deltifyBytes H target sig maxDataOpSize).1,
      op.data.length ≤
        (if maxDataOpSize = 0 then Mutagen.Facts.rsyncDefaultMaxDataOpSize else maxDataOpSize) := by
  rw [deltifyBytes_eq_plan]
  intro op hop
  rcases plan_ok H target sig maxDataOpSize op hop with ⟨_, h2, _⟩ | ⟨h1, _⟩
  · exact h2
  · simp [h1]

/-- **An unchanged target is sent without literal data**: with `target = base`
every operation is a block operation. (No collision hypothesis is needed.) -/
theorem identical_no_literals (base : List UInt8) (blockSize : Nat) (hbs : 0 < blockSize)
    (maxDataOpSize : Nat) :
    ∀ op ∈ (deltifyBytes H base (signature H base blockSize) maxDataOpSize).1, op.data = [] := by
  rw [deltifyBytes_eq_plan]
  exact plan_identical H base blockSize hbs maxDataOpSize

/-- **The rolled weak hash equals the recomputed weak hash**: for a window
`out :: w` of exactly `blockSize` bytes, `rollWeakHash` applied to the
parameters of `weakHash (out :: w)` yields exactly `weakHash (w ++ [inp])` —
hash, `r1` and `r2` — in wrap-around `UInt32` arithmetic. Depends on the
regenerated modulus `m = 2^16` dividing `2^32`. -/
theorem roll_eq_recompute (out inp : UInt8) (w : List UInt8) (blockSize : Nat)
    (hlen : (out :: w).length = blockSize) :
    rollWeakHash (weakHash (out :: w) blockSize).2.1 (weakHash (out :: w) blockSize).2.2 out inp blockSize =
      weakHash (w ++ [inp]) blockSize :=
  Mutagen.Proofs.Rsync.roll_eq_recompute out inp w blockSize hlen

/-- **Inside `Deltify`'s main loop the rolled weak hash is the weak hash of the
block at the end of the buffer**: the closure calls of the main loop (see
`Mutagen.Proofs.Rsync.mainLoop_eq`) are the same whether the weak hash is rolled,
as the code does, or recomputed from scratch in every iteration. -/
theorem rolling_is_recomputation (blockSize cap : Nat) (full : List (BlockHash D)) (hbs : 0 < blockSize)
    (fuel : Nat) (target : List UInt8) (r1 r2 : UInt32) :
    loopEvents H blockSize cap full fuel target [] r1 r2 =
      loopEventsRecompute H blockSize cap full fuel target [] :=
  loopEvents_eq_recompute H blockSize cap full hbs fuel target [] r1 r2 (Or.inl rfl)

/-- `Deltify` never reaches its `panic("buffer contains less than a block worth
of data")` and the model's loop fuel always suffices, for every valid signature. -/
theorem deltify_never_panics (target : List UInt8) (sig : Signature D) (maxDataOpSize : Nat)
    (hv : sig.hashes.length = 0 ∨ 0 < sig.blockSize) :
    (deltifyBytes H target sig maxDataOpSize).2 = .ok := by
  rw [deltifyBytes_eq_plan]
  exact plan_exit_ok H target sig maxDataOpSize hv

/-- The signature of a non-empty base passes `Signature.EnsureValid`, has one hash
per block, and its sizes add up to the length of the base. -/
theorem signature_valid (base : List UInt8) (blockSize : Nat) (hbs : 0 < blockSize) (hne : base ≠ []) :
    (signature H base blockSize).ensureValid = true ∧
    (signature H base blockSize).blockSize = blockSize ∧
    ((signature H base blockSize).hashes.length - 1) * blockSize +
      (signature H base blockSize).lastBlockSize = base.length := by
  obtain ⟨h1, g, _⟩ := signature_nonempty H base blockSize hbs hne
  refine ⟨?_, h1, by have hl := g.len; rw [h1] at hl; exact hl⟩
  have := g.bs_pos
  have := g.last_pos
  have := g.last_le
  have := g.n_pos
  unfold Signature.ensureValid
  have hb : ((signature H base blockSize).blockSize == 0) = false := by
    simp only [beq_eq_false_iff_ne, ne_eq]; omega
  have hl : ((signature H base blockSize).lastBlockSize == 0) = false := by
    simp only [beq_eq_false_iff_ne, ne_eq]; omega
  have hg : ¬ (signature H base blockSize).lastBlockSize > (signature H base blockSize).blockSize := by omega
  have hh : (signature H base blockSize).hashes.isEmpty = false := by
    cases hs : (signature H base blockSize).hashes with
    | nil => rw [hs] at this; simp at this
    | cons _ _ => rfl
  simp [hb, hl, hg, hh]

/-! ## Non-vacuity and necessity of the hypothesis -/

/-- A concrete non-trivial instance (identity as strong hash, so `NoCollision`
holds): base `abcab`, target `xabyzcab`, block size 2, data limit 1. The delta
mixes chunked data (`y`, `z`), a single block and a coalesced run that ends in
the short last block, and patches to the target. -/
example :
    deltifyBytes id [120, 97, 98, 121, 122, 99, 97, 98] (signature id [97, 98, 99, 97, 98] 2) 1 =
      ([dataOp [120], blockOp 0 1, dataOp [121], dataOp [122], blockOp 1 2], .ok) ∧
    patchBytes [97, 98, 99, 97, 98] (signature id [97, 98, 99, 97, 98] 2)
      [dataOp [120], blockOp 0 1, dataOp [121], dataOp [122], blockOp 1 2] =
        some [120, 97, 98, 121, 122, 99, 97, 98] := by
  decide

example : NoCollision id [97, 98, 99, 97, 98] 2 [120, 97, 98, 121, 122, 99, 97, 98] :=
  noCollision_of_injective id (fun _ _ h => h) _ _ _

/-- **Without the no-collision hypothesis the reconstruction statement is
false.** With a constant strong hash, base `[1,0,0,1]` and target `[0,1,1,0]`
(equal weak hashes for block size 4) the delta is the single block operation
`B0+1` and patching yields the base, not the target. -/
theorem reconstruction_needs_no_collision :
    ∃ (H : List UInt8 → Unit) (base target : List UInt8) (blockSize : Nat), 0 < blockSize ∧
      patchBytes base (signature H base blockSize)
        (deltifyBytes H target (signature H base blockSize) 1).1 ≠ some target :=
  ⟨fun _ => (), [1, 0, 0, 1], [0, 1, 1, 0], 4, by decide, by decide⟩

end Mutagen.Properties.C19
