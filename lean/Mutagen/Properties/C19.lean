import Mutagen.Model.Rsync
namespace Mutagen.Properties.C19
open Mutagen.Model.Rsync

/-- placeholder while the drivers are being tied; replaced below. -/
theorem ensureValid_dataOp (d : List UInt8) (h : d ≠ []) : (dataOp d).ensureValid = true := by
  cases d with
  | nil => exact absurd rfl h
  | cons a t => simp [dataOp, Operation.ensureValid]

end Mutagen.Properties.C19
