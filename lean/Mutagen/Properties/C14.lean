import Mutagen.Model.IgnoreMutagen
import Mutagen.Proofs.IgnoreMutagen
/-!
# C14 — Mutagen-style ignores: last match wins, ignored directories are pruned

The theorems about the loop are stated over an **arbitrary** pattern type and an
**arbitrary** per-pattern match predicate `m` (so they hold whatever
`doublestar.Match` computes), for every pattern list.
-/
namespace Mutagen.Properties.C14
open Mutagen.Model.IgnoreMutagen Mutagen.Model.Glob Mutagen.Proofs.IgnoreMutagen
open Mutagen.Model.IgnoreCore hiding Str

/-- **`ignore_loop_spec`.** For any pattern list, any negation flags and any
match predicate, the short-circuit loop of `ignorer.Ignore`, started as the Go
code starts it (`nominal`, `negatedPatternsRemaining` = number of negated
patterns), returns exactly what *the last matching pattern* dictates
(`Model.IgnoreMutagen.lastMatchWins`): `nominal` if no pattern matches,
`unignored` if the last matching one is negated, `ignored` otherwise. -/
theorem ignore_loop_spec {α : Type} (neg m : α → Bool) (ps : List α) :
    loop neg m ps .nominal ((ps.filter neg).length) = lastMatchWins neg m ps .nominal := by
  have h := loop_eq_fold neg m ps .nominal
  unfold negCount at h
  rw [h, fold_eq_lastMatch]

/-- The same, for every starting status (the loop invariant, exposed). -/
theorem ignore_loop_spec_from {α : Type} (neg m : α → Bool) (ps : List α) (st : Status) :
    loop neg m ps st ((ps.filter neg).length) = lastMatchWins neg m ps st := by
  have h := loop_eq_fold neg m ps st
  unfold negCount at h
  rw [h, fold_eq_lastMatch]

/-- `NewIgnorer` stores exactly the number of negated patterns it parsed. -/
theorem newIgnorer_count (patterns : List Str) (ig : Ignorer) (h : newIgnorer patterns = .ok ig) :
    ig.negatedPatternCount = (ig.patterns.filter (·.negated)).length := by
  unfold newIgnorer at h
  split at h
  · cases h
  · cases h; rfl

/-- **Last match wins, end to end**: for an ignorer built by `NewIgnorer` and any
glob matcher, a path is *ignored* exactly when the last pattern matching it is
a non-negated one, *unignored* exactly when it is a negated one, and *nominal*
exactly when no pattern matches. -/
theorem ignore_last_match_wins (gm : Str → Str → Bool) (patterns : List Str) (ig : Ignorer)
    (h : newIgnorer patterns = .ok ig) (path : Str) (dir : Bool) :
    (ig.ignoreWith gm path dir).1 =
      lastMatchWins (·.negated) (fun p => p.matchesWith gm path dir) ig.patterns .nominal := by
  unfold Ignorer.ignoreWith
  simp only
  rw [newIgnorer_count patterns ig h]
  exact ignore_loop_spec (·.negated) (fun p => p.matchesWith gm path dir) ig.patterns

theorem ignored_iff (gm : Str → Str → Bool) (patterns : List Str) (ig : Ignorer)
    (h : newIgnorer patterns = .ok ig) (path : Str) (dir : Bool) :
    (ig.ignoreWith gm path dir).1 = .ignored ↔
      ∃ p, (ig.patterns.filter (fun p => p.matchesWith gm path dir)).getLast? = some p ∧ p.negated = false := by
  rw [ignore_last_match_wins gm patterns ig h]
  unfold lastMatchWins
  cases hl : (ig.patterns.filter (fun p => p.matchesWith gm path dir)).getLast? with
  | none => simp
  | some p => cases hn : p.negated <;> simp [hn]

/-- **Never continue traversal**: a Mutagen-style ignorer never asks the scan to
descend into ignored content. -/
theorem ignore_never_continues (gm : Str → Str → Bool) (ig : Ignorer) (path : Str) (dir : Bool) :
    (ig.ignoreWith gm path dir).2 = false := rfl

/-- Non-vacuity of the loop theorem: three patterns, the middle one negated,
all matching — the last one wins. -/
example : loop (fun (p : Bool × Bool) => p.1) (fun p => p.2) [(false, true), (true, true), (false, true)] .nominal 1 = .ignored := by
  decide

end Mutagen.Properties.C14
