import Mutagen.Model.IgnoreMutagen
import Mutagen.Proofs.IgnoreMutagen
import Mutagen.Proofs.ScanIgnore
import Mutagen.Proofs.GlobSpec
/-!
# C14 — Mutagen-style ignores: last match wins, ignored directories are pruned

The theorems about the loop are stated over an **arbitrary** pattern type and an
**arbitrary** per-pattern match predicate `m` (so they hold whatever
`doublestar.Match` computes), for every pattern list.
-/
namespace Mutagen.Properties.C14
open Mutagen.Model.IgnoreMutagen Mutagen.Model.Glob Mutagen.Proofs.IgnoreMutagen
open Mutagen.Model.IgnoreCore hiding Str

/-- **`ignore_loop_spec`.** For any pattern list, any negation flags and any
match predicate, the short-circuit loop of `ignorer.Ignore`, started as the Go
code starts it (`nominal`, `negatedPatternsRemaining` = number of negated
patterns), returns exactly what *the last matching pattern* dictates
(`Model.IgnoreMutagen.lastMatchWins`): `nominal` if no pattern matches,
`unignored` if the last matching one is negated, `ignored` otherwise. -/
theorem ignore_loop_spec {α : Type} (neg m : α → Bool) (ps : List α) :
    loop neg m ps .nominal ((ps.filter neg).length) = lastMatchWins neg m ps .nominal := by
  have h := loop_eq_fold neg m ps .nominal
  unfold negCount at h
  rw [h, fold_eq_lastMatch]

/-- The same, for every starting status (the loop invariant, exposed). -/
theorem ignore_loop_spec_from {α : Type} (neg m : α → Bool) (ps : List α) (st : Status) :
    loop neg m ps st ((ps.filter neg).length) = lastMatchWins neg m ps st := by
  have h := loop_eq_fold neg m ps st
  unfold negCount at h
  rw [h, fold_eq_lastMatch]

/-- `NewIgnorer` stores exactly the number of negated patterns it parsed. -/
theorem newIgnorer_count (patterns : List Str) (ig : Ignorer) (h : newIgnorer patterns = .ok ig) :
    ig.negatedPatternCount = (ig.patterns.filter (·.negated)).length := by
  unfold newIgnorer at h
  split at h
  · cases h
  · cases h; rfl

/-- **Last match wins, end to end**: for an ignorer built by `NewIgnorer` and any
glob matcher, a path is *ignored* exactly when the last pattern matching it is
a non-negated one, *unignored* exactly when it is a negated one, and *nominal*
exactly when no pattern matches. -/
theorem ignore_last_match_wins (gm : Str → Str → Bool) (patterns : List Str) (ig : Ignorer)
    (h : newIgnorer patterns = .ok ig) (path : Str) (dir : Bool) :
    (ig.ignoreWith gm path dir).1 =
      lastMatchWins (·.negated) (fun p => p.matchesWith gm path dir) ig.patterns .nominal := by
  unfold Ignorer.ignoreWith
  simp only
  rw [newIgnorer_count patterns ig h]
  exact ignore_loop_spec (·.negated) (fun p => p.matchesWith gm path dir) ig.patterns

theorem ignored_iff (gm : Str → Str → Bool) (patterns : List Str) (ig : Ignorer)
    (h : newIgnorer patterns = .ok ig) (path : Str) (dir : Bool) :
    (ig.ignoreWith gm path dir).1 = .ignored ↔
      ∃ p, (ig.patterns.filter (fun p => p.matchesWith gm path dir)).getLast? = some p ∧ p.negated = false := by
  rw [ignore_last_match_wins gm patterns ig h]
  unfold lastMatchWins
  cases hl : (ig.patterns.filter (fun p => p.matchesWith gm path dir)).getLast? with
  | none => simp
  | some p => cases hn : p.negated <;> simp [hn]

/-- **Never continue traversal**: a Mutagen-style ignorer never asks the scan to
descend into ignored content. -/
theorem ignore_never_continues (gm : Str → Str → Bool) (ig : Ignorer) (path : Str) (dir : Bool) :
    (ig.ignoreWith gm path dir).2 = false := rfl

/-! ## Pattern parsing facts (`newIgnorePattern`) -/

/-- `newIgnorePattern` never evaluates an out-of-range index expression
(`pattern[0]`, `pattern[len(pattern)-1]`), whatever the input. -/
theorem parse_never_panics (p : Str) : parse p ≠ .error .panic := parse_no_panic p

/-- Negation: a leading `!` is stripped and only sets the `negated` flag; the
rest of the pattern is parsed exactly as the un-negated pattern would be. -/
theorem parse_negation (rest : Str) :
    parse ('!' :: rest) = parseBody true rest ∧
    (∀ q, parseBody true rest = .ok q → parseBody false rest = .ok { q with negated := false }) ∧
    (∀ q, parseBody false rest = .ok q → parseBody true rest = .ok { q with negated := true }) ∧
    (∀ e, parseBody true rest = .error e ↔ parseBody false rest = .error e) := by
  refine ⟨rfl, ?_, ?_, ?_⟩
  · intro q h
    rw [parseBody_eq] at h ⊢
    repeat (first | (split at h <;> try cases h) )
    all_goals simp_all
  · intro q h
    rw [parseBody_eq] at h ⊢
    repeat (first | (split at h <;> try cases h) )
    all_goals simp_all
  · intro e
    rw [parseBody_eq, parseBody_eq]
    repeat (first | split | simp)

/-- The four fields of a successfully parsed pattern, in terms of the cleaned
text: `negated` is the `!` flag; **anchoring**: `matchLeaf` iff the cleaned
pattern neither starts with `/` nor contains a `/` after the trailing one is
removed; **trailing slash**: `directoryOnly` iff the cleaned pattern ends in
`/`; the pattern handed to the matcher has both slashes removed. -/
theorem pattern_parse (n : Bool) (body : Str) (q : Pattern) (h : parseBody n body = .ok q) :
    q.negated = n ∧
    q.directoryOnly = isDirOnly body ∧
    (q.matchLeaf = true ↔ (isAbsolute body = false ∧ '/' ∉ q.pattern)) ∧
    q.pattern = finalPattern body := by
  obtain ⟨h1, h2, h3, h4⟩ := parseBody_ok_fields n body q h
  refine ⟨h1, h2, ?_, h4⟩
  rw [h3, h4]
  cases isAbsolute body <;> simp

/-- A directory-only pattern never matches a non-directory. -/
theorem directory_only_never_matches_file (gm : Str → Str → Bool) (q : Pattern) (path : Str)
    (h : q.directoryOnly = true) : q.matchesWith gm path false = false := by
  simp [Pattern.matchesWith, h]

/-- Anchored patterns (leading slash or containing a slash) are matched against
the whole root-relative path only. -/
theorem anchored_matches_whole_path_only (gm : Str → Str → Bool) (q : Pattern) (path : Str) (dir : Bool)
    (h : q.matchLeaf = false) :
    q.matchesWith gm path dir = (!(q.directoryOnly && !dir) && gm q.pattern path) := by
  unfold Pattern.matchesWith
  cases q.directoryOnly <;> cases dir <;> cases gm q.pattern path <;> simp [h]

/-- Slash-free, unanchored patterns match the whole path **or its final
component** — anywhere in the tree. -/
theorem leaf_pattern_matches_base (gm : Str → Str → Bool) (q : Pattern) (path : Str) (dir : Bool)
    (h : q.matchLeaf = true) (hp : path ≠ []) :
    q.matchesWith gm path dir =
      (!(q.directoryOnly && !dir) && (gm q.pattern path || gm q.pattern (pathBase path))) := by
  unfold Pattern.matchesWith
  cases q.directoryOnly <;> cases dir <;> cases gm q.pattern path <;>
    cases gm q.pattern (pathBase path) <;> simp [h, hp]

/-! ## The VCS wrapper (`ignore.IgnoreVCS`) -/

/-- The table of VCS directory names the model uses is the one in the Go source. -/
theorem vcs_names_fact :
    vcsDirectoryNames = [".git".toList, ".svn".toList, ".hg".toList, ".bzr".toList, "_darcs".toList] := by
  decide

/-- `vcs_wrapper`: a directory whose base name is a VCS directory name is
ignored without continuation; every other request is passed through unchanged. -/
theorem vcs_wrapper (inner : Str → Bool → Status × Bool) (path : Str) (dir : Bool) :
    (dir = true → ∀ b, fastpathBase path = some b → vcsDirectoryNames.contains b = true →
        vcsIgnore inner path dir = some (.ignored, false)) ∧
    (dir = true → ∀ b, fastpathBase path = some b → vcsDirectoryNames.contains b = false →
        vcsIgnore inner path dir = some (inner path dir)) ∧
    (dir = false → vcsIgnore inner path dir = some (inner path dir)) := by
  refine ⟨?_, ?_, ?_⟩
  · intro hd b hb hv; subst hd
    have hv' : b ∈ vcsDirectoryNames := by simpa using hv
    simp [vcsIgnore, hb, hv']
  · intro hd b hb hv; subst hd
    have hv' : ¬ b ∈ vcsDirectoryNames := by simpa using hv
    simp [vcsIgnore, hb, hv']
  · intro hd; subst hd; simp [vcsIgnore]

/-- The wrapper never introduces traversal continuation. -/
theorem vcs_never_continues (inner : Str → Bool → Status × Bool) (hinner : ∀ p d, (inner p d).2 = false)
    (path : Str) (dir : Bool) (r : Status × Bool) (h : vcsIgnore inner path dir = some r) : r.2 = false := by
  unfold vcsIgnore at h
  split at h
  · split at h
    · cases h
    · split at h <;> cases h <;> simp [hinner]
  · cases h; exact hinner _ _

/-! ## Pruning: nothing beneath an ignored directory is scanned -/

/-- `ignored_dir_pruned`: whatever a directory contains, if the ignorer says
"ignored, do not continue" the scan records it as a single untracked entry —
its contents are never looked at (they do not occur in the result). The same
holds for files and links. -/
theorem ignored_dir_pruned (ign : IgnoreFn) (p : Str) (mask : Bool) (node : Node)
    (hother : node.isDir = true ∨ node = .file ∨ node = .link)
    (h : ign p node.isDir = (.ignored, false)) :
    scanChild ign p mask node = .untracked := by
  cases node with
  | other => simp [Node.isDir] at hother
  | file => rw [Mutagen.Proofs.ScanIgnore.scanChild_file]; simp [Node.isDir] at h; simp [h, childDecision]
  | link => rw [Mutagen.Proofs.ScanIgnore.scanChild_link]; simp [Node.isDir] at h; simp [h, childDecision]
  | dir cs => rw [Mutagen.Proofs.ScanIgnore.scanChild_dir]; simp [Node.isDir] at h; simp [h, childDecision]

/-- `scan_mutagen_noPhantom`: a scan with a Mutagen-style ignorer (any pattern
list, any glob matcher) contains no phantom directory. -/
theorem scan_mutagen_noPhantom (gm : Str → Str → Bool) (ig : Ignorer) (children : List (Str × Node)) :
    noPhantom (scanRoot (ig.ignoreWith gm) children) = true := by
  unfold scanRoot
  simp only [noPhantom, Bool.not_false, Bool.true_and]
  exact Mutagen.Proofs.ScanIgnore.scanChildren_noPhantom (ig.ignoreWith gm)
    (fun p d => ignore_never_continues gm ig p d) children []

/-- … and neither does a scan through the VCS wrapper around it. -/
theorem scan_vcs_noPhantom (gm : Str → Str → Bool) (ig : Ignorer) (children : List (Str × Node)) :
    noPhantom (scanRoot (fun p d => (vcsIgnore (ig.ignoreWith gm) p d).getD (.nominal, false)) children) = true := by
  unfold scanRoot
  simp only [noPhantom, Bool.not_false, Bool.true_and]
  refine Mutagen.Proofs.ScanIgnore.scanChildren_noPhantom _ ?_ children []
  intro p d
  cases hv : vcsIgnore (ig.ignoreWith gm) p d with
  | none => rfl
  | some r =>
    simp only [Option.getD_some]
    exact vcs_never_continues (ig.ignoreWith gm) (fun p d => ignore_never_continues gm ig p d) p d r hv

/-! ## The reference glob matcher (`Model/Glob.gmatch`, the specification
`doublestar.Match` is tested against) -/

/-- Literals: a pattern without `*`, `?`, `[` matches exactly the equal name. -/
theorem glob_literal (p n : Str) (h : p.all Mutagen.Proofs.GlobSpec.plain = true) :
    gmatch p n = decide (p = n) :=
  Mutagen.Proofs.GlobSpec.gmatch_literal p n h

/-- `*`, `?` and character classes never match the separator: a pattern without
a slash (other than the lone `**`) matches slash-free names only — so on deeper
paths a slash-free pattern can only match through the final component
(`leaf_pattern_matches_base`). -/
theorem glob_slash_free_single_component (p n : Str) (hp : '/' ∉ p) (hds : p ≠ ['*', '*'])
    (h : gmatch p n = true) : '/' ∉ n :=
  Mutagen.Proofs.GlobSpec.gmatch_slash_free p n hp hds h

/-- `**` spans directory levels: `**/x` matches `x` at any depth, `a/**` matches
everything beneath `a` and `a` itself, `a/**/b` matches across levels. -/
theorem glob_doublestar_examples :
    gmatch "**/x".toList "x".toList = true ∧ gmatch "**/x".toList "a/b/x".toList = true ∧
    gmatch "a/**".toList "a".toList = true ∧ gmatch "a/**".toList "a/b/c".toList = true ∧
    gmatch "a/**/b".toList "a/b".toList = true ∧ gmatch "a/**/b".toList "a/x/y/b".toList = true ∧
    gmatch "a/*/b".toList "a/x/y/b".toList = false ∧ gmatch "*".toList "a/b".toList = false := by
  decide

/-- Non-vacuity of the loop theorem: three patterns, the middle one negated,
all matching — the last one wins. -/
example : loop (fun (p : Bool × Bool) => p.1) (fun p => p.2) [(false, true), (true, true), (false, true)] .nominal 1 = .ignored := by
  decide

end Mutagen.Properties.C14
