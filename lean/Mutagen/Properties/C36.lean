import Mutagen.Proofs.Argv
/-!
# C36 — endpoint URL components are never treated as command-line options

Property theorems over `Mutagen.Model.URL.ensureValid` (with the repair of
fixes/C36.patch) and `Mutagen.Model.Argv` (the argument vectors built by the
SSH and Docker agent transports); helper lemmas live in `Mutagen.Proofs.Argv`.
All components, ports, commands, file names, Docker parameters and probe
results are arbitrary.
-/
namespace Mutagen.Properties.C36
open Mutagen.Model.URL Mutagen.Model.Argv Mutagen.Proofs.Argv

/-- **Option-like components are rejected.** An SSH or Docker URL whose user name, host name or
container name starts with '-' is not valid — on any platform, for either kind. -/
theorem option_like_rejected (P : Platform) (u : URL) (hp : u.protocol = .ssh ∨ u.protocol = .docker)
    (hd : startsWithDash u.user = true ∨ startsWithDash u.host = true) :
    ensureValid P u ≠ .ok () := by
  intro h
  obtain ⟨_, h1, h2⟩ := valid_components h hp
  rcases hd with hd | hd
  · rw [h1] at hd; exact Bool.noConfusion hd
  · rw [h2] at hd; exact Bool.noConfusion hd

/-- **Operands are not options (ssh).** For a valid SSH URL, in the vectors of `ssh` (Command) and
`scp` (Copy) every element derived from the URL's user/host that sits in operand position does
not start with '-'; and there is exactly one such element, `[user@]host` resp.
`[user@]host:remoteName`. -/
theorem ssh_operands_not_options (P : Platform) (u : URL) (hv : ensureValid P u = .ok ()) (hp : u.protocol = .ssh)
    (timeout : Nat) (command sourceBase remoteName : Str) :
    urlOperands (sshCommandArgs timeout u.user u.host u.port command) = [urlOperand (sshTarget u.user u.host)] ∧
    urlOperands (scpArgs timeout u.user u.host u.port sourceBase remoteName) =
      [urlOperand (scpDestination u.user u.host remoteName)] ∧
    startsWithDash (sshTarget u.user u.host) = false ∧
    startsWithDash (scpDestination u.user u.host remoteName) = false := by
  obtain ⟨hh, h1, h2⟩ := valid_components hv (Or.inl hp)
  refine ⟨?_, ?_, sshTarget_no_dash hh h1 h2, scpDestination_no_dash remoteName hh h1 h2⟩
  · by_cases hport : u.port = 0 <;>
      simp [urlOperands, sshCommandArgs, serverAliveFlags, connectTimeoutFlag, hport, opt, optS, val, operand, urlOperand]
  · by_cases hport : u.port = 0 <;>
      simp [urlOperands, scpArgs, serverAliveFlags, connectTimeoutFlag, compressionFlag, hport, opt, optS, val, operand,
        urlOperand]

/-- **Operands are not options (docker).** For a valid Docker URL and any daemon flags that carry no
URL component (in particular those computed from the URL parameters), in the vectors of
`docker exec` (probes, agent command, chown), `docker cp` and `docker stop/start` the only
URL-derived operand is the container name (resp. `container:path`), which does not start with '-'. -/
theorem docker_operands_not_options (P : Platform) (u : URL) (hv : ensureValid P u = .ok ()) (hp : u.protocol = .docker)
    (flags : List Arg) (hf : ∀ a ∈ flags, a.url = false)
    (command workingDirectory user home localPath remoteName : Str) (windows stop : Bool) :
    urlOperands (dockerExecArgs flags u.host u.user command workingDirectory user) = [urlOperand u.host] ∧
    urlOperands (dockerStatusArgs flags u.host stop) = [urlOperand u.host] ∧
    urlOperands (dockerCopyArgs flags u.host windows home localPath remoteName) =
      [urlOperand (u.host ++ ':' :: (home ++ (if windows then '\\' else '/') :: remoteName))] ∧
    startsWithDash u.host = false ∧
    startsWithDash (u.host ++ ':' :: (home ++ (if windows then '\\' else '/') :: remoteName)) = false := by
  obtain ⟨hh, _, h2⟩ := valid_components hv (Or.inr hp)
  have hflags : flags.filter (fun a => a.url && a.role == .operand) = [] := by
    rw [List.filter_eq_nil_iff]
    intro a ha
    simp [hf a ha]
  have hwords : ∀ ws : List Str, (ws.map operand).filter (fun a => a.url && a.role == .operand) = [] := by
    intro ws
    rw [List.filter_eq_nil_iff]
    intro a ha
    simp only [List.mem_map] at ha
    obtain ⟨w, _, rfl⟩ := ha
    simp [operand]
  refine ⟨?_, ?_, ?_, h2, by rw [startsWithDash_append _ hh]; exact h2⟩
  · unfold urlOperands dockerExecArgs
    simp only [List.filter_append, hflags, hwords]
    by_cases hu : user = [] <;> by_cases htu : u.user = [] <;> by_cases hw : workingDirectory = [] <;>
      simp [hu, htu, hw, opt, val, operand, urlOperand, urlValue]
  · unfold urlOperands dockerStatusArgs
    simp only [List.filter_append, hflags]
    simp [operand, urlOperand]
  · unfold urlOperands dockerCopyArgs
    simp only [List.filter_append, hflags]
    simp [operand, urlOperand]

/-- The daemon connection flags computed from URL parameters qualify for the previous theorem. -/
theorem daemon_flags_carry_no_url_component (parameters : List (Str × Str)) (flags : List Arg)
    (h : daemonConnectionFlags parameters = .ok flags) : ∀ a ∈ flags, a.url = false :=
  daemonConnectionFlags_not_url h

/-- **The command line reads as intended (ssh).** A getopt-style reading of the texts of the `ssh`
vector — every element starting with '-' is an option unless it is the value of the preceding
value-taking option — assigns every element the role it was built for, provided the remote
command itself does not start with '-' (agent commands never do). In particular `[user@]host`
is read as the operand. -/
theorem ssh_vector_read_as_intended (P : Platform) (u : URL) (hv : ensureValid P u = .ok ()) (hp : u.protocol = .ssh)
    (timeout : Nat) (command : Str) (hc : startsWithDash command = false) :
    interpret takesValue ((sshCommandArgs timeout u.user u.host u.port command).map (·.text)) =
      (sshCommandArgs timeout u.user u.host u.port command).map (·.role) := by
  obtain ⟨hh, h1, h2⟩ := valid_components hv (Or.inl hp)
  have ht := sshTarget_no_dash hh h1 h2
  by_cases hport : u.port = 0 <;>
    simp [interpret, interpretAux, sshCommandArgs, serverAliveFlags, connectTimeoutFlag, hport, opt, optS, val, operand,
      urlOperand, startsWithDash_dash, takesValue, ht, hc]

/-- **The command line reads as intended (scp).** -/
theorem scp_vector_read_as_intended (P : Platform) (u : URL) (hv : ensureValid P u = .ok ()) (hp : u.protocol = .ssh)
    (timeout : Nat) (sourceBase remoteName : Str) (hs : startsWithDash sourceBase = false) :
    interpret takesValue ((scpArgs timeout u.user u.host u.port sourceBase remoteName).map (·.text)) =
      (scpArgs timeout u.user u.host u.port sourceBase remoteName).map (·.role) := by
  obtain ⟨hh, h1, h2⟩ := valid_components hv (Or.inl hp)
  have hd := scpDestination_no_dash remoteName hh h1 h2
  by_cases hport : u.port = 0 <;>
    simp [interpret, interpretAux, scpArgs, serverAliveFlags, connectTimeoutFlag, compressionFlag, hport, opt, optS, val,
      operand, urlOperand, startsWithDash_dash, takesValue, hd, hs]

/-- **The command line reads as intended (docker stop/start, no daemon flags).** -/
theorem docker_status_vector_read_as_intended (P : Platform) (u : URL) (hv : ensureValid P u = .ok ())
    (hp : u.protocol = .docker) (stop : Bool) :
    interpret takesValue ((dockerStatusArgs [] u.host stop).map (·.text)) =
      (dockerStatusArgs [] u.host stop).map (·.role) := by
  obtain ⟨_, _, h2⟩ := valid_components hv (Or.inr hp)
  have e1 : startsWithDash ['s', 't', 'o', 'p'] = false := rfl
  have e2 : startsWithDash ['s', 't', 'a', 'r', 't'] = false := rfl
  cases stop <;>
    simp [interpret, interpretAux, dockerStatusArgs, operand, urlOperand, startsWithDash_dash, takesValue, h2, e1, e2]

/-- **The command line reads as intended (docker exec, no daemon flags)**: `--user <user>` is an
option with its value — whatever the user name looks like —, the container is the operand. -/
theorem docker_exec_vector_read_as_intended (P : Platform) (u : URL) (hv : ensureValid P u = .ok ())
    (hp : u.protocol = .docker) (workingDirectory : Str) :
    interpret takesValue ((dockerExecArgs [] u.host u.user "env".toList workingDirectory []).map (·.text)) =
      (dockerExecArgs [] u.host u.user "env".toList workingDirectory []).map (·.role) := by
  obtain ⟨_, _, h2⟩ := valid_components hv (Or.inr hp)
  have e1 : startsWithDash ['e', 'x', 'e', 'c'] = false := rfl
  have e2 : startsWithDash ['e', 'n', 'v'] = false := rfl
  by_cases htu : u.user = [] <;> by_cases hw : workingDirectory = [] <;>
    simp [interpret, interpretAux, dockerExecArgs, splitSpaces, htu, hw, opt, val, operand, urlOperand, urlValue,
      startsWithDash_dash, takesValue, h2, e1, e2]

/-! ## Docker vectors with daemon connection flags

The assumption on the flags is `ReadAsIntended flags`: read by the same getopt/pflag model, the
flag block consists of options and their values and leaves the reading of what follows
unaffected. `daemon_flags_read_as_intended` shows that it holds for the flags Mutagen computes
from URL parameters (`--config V`, `--host V`, `--context V`, `--tls`, `--tlscacert V`,
`--tlscert V`, `--tlskey V`, `--tlsverify`), for arbitrary parameter values — these are never
derived from the user, host or container (`daemon_flags_carry_no_url_component`). -/

/-- The daemon connection flags computed from URL parameters are read as options and option values. -/
theorem daemon_flags_read_as_intended (parameters : List (Str × Str)) (flags : List Arg)
    (h : daemonConnectionFlags parameters = .ok flags) : ReadAsIntended flags :=
  daemonConnectionFlags_readAsIntended h

/-- **docker stop / start with daemon flags.** -/
theorem docker_status_vector_with_flags_read_as_intended (P : Platform) (u : URL) (hv : ensureValid P u = .ok ())
    (hp : u.protocol = .docker) (flags : List Arg) (hf : ReadAsIntended flags) (stop : Bool) :
    interpret takesValue ((dockerStatusArgs flags u.host stop).map (·.text)) =
      (dockerStatusArgs flags u.host stop).map (·.role) := by
  obtain ⟨_, _, h2⟩ := valid_components hv (Or.inr hp)
  apply interpret_of_readAsIntended
  unfold dockerStatusArgs
  refine readAsIntended_append hf (readAsIntended_append (a := [_]) (b := [_]) ?_ ?_)
  · apply readAsIntended_operand _ rfl
    cases stop <;> rfl
  · exact readAsIntended_operand _ rfl h2

/-- **docker cp with daemon flags**: `cp`, the local path (absolute in practice; assumed not to
start with '-') and `container:path` are read as operands. `docker cp` parses interspersed flags,
so the conservative reading — any later element starting with '-' would be an option — is the
right one here; the container name not starting with '-' is what makes the last operand safe. -/
theorem docker_cp_vector_read_as_intended (P : Platform) (u : URL) (hv : ensureValid P u = .ok ())
    (hp : u.protocol = .docker) (flags : List Arg) (hf : ReadAsIntended flags)
    (windows : Bool) (home localPath remoteName : Str) (hl : startsWithDash localPath = false) :
    interpret takesValue ((dockerCopyArgs flags u.host windows home localPath remoteName).map (·.text)) =
      (dockerCopyArgs flags u.host windows home localPath remoteName).map (·.role) := by
  obtain ⟨hh, _, h2⟩ := valid_components hv (Or.inr hp)
  apply interpret_of_readAsIntended
  unfold dockerCopyArgs
  refine readAsIntended_append hf
    (readAsIntended_append (a := [_]) (b := [_, _]) ?_ (readAsIntended_append (a := [_]) (b := [_]) ?_ ?_))
  · exact readAsIntended_operand _ rfl rfl
  · exact readAsIntended_operand _ rfl hl
  · apply readAsIntended_operand _ rfl
    show startsWithDash (u.host ++ _) = false
    rw [startsWithDash_append _ hh]; exact h2

/-- **docker exec with daemon flags**, any command, working directory and user override:
`exec` is an operand, `--interactive` a switch, `--user V` / `--workdir V` options with their
values (whatever the values look like), the container the operand, and the words of the command
operands. The conservative reading does not stop at the first operand, so the words of the
command are assumed not to start with '-' here (true of the agent invocation, `env`,
`cmd /c set` and `chown user:group name`); for `id -un` / `id -gn` it is `docker exec`'s
documented behaviour of not parsing anything after the container that keeps `-un` from being
read as a flag — see `docker_exec_vector_read_until_container` below, which needs no
assumption on the command. -/
theorem docker_exec_vector_with_flags_read_as_intended (P : Platform) (u : URL) (hv : ensureValid P u = .ok ())
    (hp : u.protocol = .docker) (flags : List Arg) (hf : ReadAsIntended flags)
    (command workingDirectory user : Str) (hc : ∀ w ∈ splitSpaces command, startsWithDash w = false) :
    interpret takesValue ((dockerExecArgs flags u.host u.user command workingDirectory user).map (·.text)) =
      (dockerExecArgs flags u.host u.user command workingDirectory user).map (·.role) := by
  obtain ⟨_, _, h2⟩ := valid_components hv (Or.inr hp)
  apply interpret_of_readAsIntended
  unfold dockerExecArgs
  have hexec : ReadAsIntended [operand "exec".toList, opt "--interactive"] :=
    readAsIntended_append (a := [_]) (b := [_]) (readAsIntended_operand _ rfl rfl)
      (readAsIntended_switch "interactive".toList (by decide))
  have huser : ReadAsIntended (if user ≠ [] then [opt "--user", val user]
      else if u.user ≠ [] then [opt "--user", urlValue u.user] else []) := by
    by_cases h1 : user = []
    · by_cases h3 : u.user = []
      · simp only [h1, h3, ne_eq, not_true_eq_false, if_false]; exact readAsIntended_nil
      · simp only [h1, h3, ne_eq, not_true_eq_false, not_false_eq_true, if_false, if_true]
        exact readAsIntended_valued "user".toList _ rfl (by decide)
    · simp only [h1, ne_eq, not_false_eq_true, if_true]
      exact readAsIntended_valued "user".toList _ rfl (by decide)
  have hwd : ReadAsIntended (if workingDirectory ≠ [] then [opt "--workdir", val workingDirectory] else []) := by
    by_cases h1 : workingDirectory = []
    · simp only [h1, ne_eq, not_true_eq_false, if_false]; exact readAsIntended_nil
    · simp only [h1, ne_eq, not_false_eq_true, if_true]
      exact readAsIntended_valued "workdir".toList _ rfl (by decide)
  exact readAsIntended_append (readAsIntended_append (readAsIntended_append (readAsIntended_append
    (readAsIntended_append hf hexec) huser) hwd) (readAsIntended_operand _ rfl h2))
    (readAsIntended_operands _ hc)

/-- **docker exec as `docker` parses it**: top-level flags, the `exec` sub-command, its flags, the
container, and then nothing more is parsed (the flag sets of `docker` and `docker exec` are not
interspersed: two operands, `exec` and the container, end option parsing). Under this reading
every element of the vector plays the role it was built for, for *any* command — `id -un`,
`chown …`, the agent invocation — any working directory, any user override and any
daemon flags satisfying `OptionsReadAsIntended` (those computed from URL parameters do:
`daemon_flags_options_read_as_intended`). The only fact needed about the URL is that the
container name does not start with '-'. -/
theorem docker_exec_vector_read_until_container (P : Platform) (u : URL) (hv : ensureValid P u = .ok ())
    (hp : u.protocol = .docker) (flags : List Arg) (hf : OptionsReadAsIntended flags)
    (command workingDirectory user : Str) :
    interpretUntil takesValue 2 false ((dockerExecArgs flags u.host u.user command workingDirectory user).map (·.text)) =
      (dockerExecArgs flags u.host u.user command workingDirectory user).map (·.role) := by
  obtain ⟨_, _, h2⟩ := valid_components hv (Or.inr hp)
  have huser : OptionsReadAsIntended (if user ≠ [] then [opt "--user", val user]
      else if u.user ≠ [] then [opt "--user", urlValue u.user] else []) := by
    by_cases h1 : user = []
    · by_cases h3 : u.user = []
      · simp only [h1, h3, ne_eq, not_true_eq_false, if_false]; exact optionsRead_nil
      · simp only [h1, h3, ne_eq, not_true_eq_false, not_false_eq_true, if_false, if_true]
        exact optionsRead_valued "user".toList _ rfl (by decide)
    · simp only [h1, ne_eq, not_false_eq_true, if_true]
      exact optionsRead_valued "user".toList _ rfl (by decide)
  have hwd : OptionsReadAsIntended (if workingDirectory ≠ [] then [opt "--workdir", val workingDirectory] else []) := by
    by_cases h1 : workingDirectory = []
    · simp only [h1, ne_eq, not_true_eq_false, if_false]; exact optionsRead_nil
    · simp only [h1, ne_eq, not_false_eq_true, if_true]
      exact optionsRead_valued "workdir".toList _ rfl (by decide)
  have hmid := optionsRead_append (optionsRead_append (optionsRead_switch "interactive".toList (by decide)) huser) hwd
  unfold dockerExecArgs
  simp only [List.map_append, List.append_assoc]
  rw [hf 1]
  show _ ++ interpretUntil takesValue 2 false ("exec".toList :: _) = _
  rw [interpretUntil_operand 1 _ _ rfl]
  have := hmid 0 ((List.map (fun x => x.text) [urlOperand u.host]) ++ List.map (fun x => x.text) (List.map operand (splitSpaces command)))
  have eopt : opt "--interactive" = optS ('-' :: '-' :: "interactive".toList) := by decide
  simp only [List.map_append, List.append_assoc] at this
  simp only [List.map_cons, List.map_nil, List.cons_append, List.nil_append, List.append_assoc, Nat.zero_add] at this
  simp only [List.map_cons, List.map_nil, List.cons_append, List.nil_append, List.append_assoc, List.append_eq, eopt]
  rw [this]
  have hc : interpretUntil takesValue 1 false ((urlOperand u.host).text :: List.map (fun x => x.text) (List.map operand (splitSpaces command))) =
      .operand :: (List.map (fun x => x.text) (List.map operand (splitSpaces command))).map fun _ => Role.operand := by
    have e := interpretUntil_operand 0 u.host
      (List.map (fun x => x.text) (List.map operand (splitSpaces command))) h2
    rw [interpretUntil_zero] at e
    exact e
  rw [hc]
  simp [operand, urlOperand, opt, optS]

/-- The daemon connection flags computed from URL parameters qualify for the previous theorem. -/
theorem daemon_flags_options_read_as_intended (parameters : List (Str × Str)) (flags : List Arg)
    (h : daemonConnectionFlags parameters = .ok flags) : OptionsReadAsIntended flags :=
  daemonConnectionFlags_optionsRead h

/-! ## Non-vacuity and the unrepaired behaviour -/

/-- Without the check in `EnsureValid` the host `-oProxyCommand=x` would be read by `ssh` as an option. -/
example : interpret takesValue ((sshCommandArgs 5 [] "-oProxyCommand=x".toList 0 "agent".toList).map (·.text)) =
    [.option, .option, .option, .option, .operand] := by
  decide

/-- An ordinary URL is valid, so the hypotheses of the theorems above are satisfiable. -/
example : ensureValid (posix false (fun _ => none) (fun _ => none))
    { kind := .synchronization, protocol := .ssh, user := "user".toList, host := "host".toList, port := 22,
      path := "/p".toList, environment := [], parameters := [] } = .ok () := by
  rfl

end Mutagen.Properties.C36
