import Mutagen.Proofs.Bundle
/-!
# C46 — agent bundle lookup honours search order and extracts exactly

Property theorems only (helper lemmas live in `Mutagen.Proofs.Bundle`). The
model is of the **repaired** search loop (`fixes/C46.patch` adds the missing
`break`); `original_loop_last_wins` records the defect of the loop as found.
-/
namespace Mutagen.Properties.C46
open Mutagen.Model.Bundle

/-- The search path is the executable's directory, followed by `../libexec`
exactly when that directory is called `bin` — never the other way round. -/
theorem search_path_order (executable : Path) :
    ((dir executable).getLast? = some "bin" ∧
      searchPaths executable = [dir executable, dir (dir executable) ++ ["libexec"]]) ∨
    ((dir executable).getLast? ≠ some "bin" ∧ searchPaths executable = [dir executable]) := by
  unfold searchPaths libexecPath
  by_cases h : (dir executable).getLast? = some "bin"
  · left; simp [h]
  · right; simp [h]

/-- `libexec_only_for_bin`: a location is searched iff it is the executable's
directory, or it is the sibling `libexec` **and** the base name of the
executable's directory is exactly `"bin"` — a directory whose name merely
ends in, starts with or resembles `bin` (`sbin`, `cabin`, `bin2`, `Bin`) does
not bring `../libexec` into the search path. -/
theorem libexec_only_for_bin (executable p : Path) :
    p ∈ searchPaths executable ↔
      p = dir executable ∨
      (p = dir (dir executable) ++ ["libexec"] ∧ (dir executable).getLast? = some "bin") := by
  rcases search_path_order executable with ⟨hb, hp⟩ | ⟨hb, hp⟩
  · rw [hp]; simp [hb]
  · rw [hp]; simp [hb]

/-- Consequence for the whole lookup: when the executable's directory is not
called exactly `bin` and holds no bundle, the lookup fails with "unable to
locate" — whatever the sibling `libexec` (or anything else) holds. -/
theorem no_bin_no_libexec_lookup (fs : Path → LocState) (executable : Path) (goos goarch : Bytes)
    (hb : (dir executable).getLast? ≠ some "bin") (habs : fs (dir executable) = .absent) :
    executableForPlatform fs executable goos goarch = .error .locate := by
  rcases search_path_order executable with ⟨hb', _⟩ | ⟨_, hp⟩
  · exact absurd hb' hb
  · unfold executableForPlatform
    rw [hp]
    simp [searchLoop, habs]

/-- Near misses of `bin` concretely. -/
example : searchPaths ["usr", "sbin", "mutagen"] = [["usr", "sbin"]] ∧
    searchPaths ["home", "robin", "mutagen"] = [["home", "robin"]] ∧
    searchPaths ["opt", "Bin", "mutagen"] = [["opt", "Bin"]] ∧
    searchPaths ["opt", "bin2", "mutagen"] = [["opt", "bin2"]] ∧
    searchPaths ["usr", "bin", "mutagen"] = [["usr", "bin"], ["usr", "libexec"]] := by
  decide

/-- `first_bundle_wins`: if every location before `p` has no bundle and `p`
holds one, that bundle is used — whatever the later locations hold (another
bundle, a directory, something unreadable). -/
theorem first_bundle_wins (fs : Path → LocState) (pre post : List Path) (p : Path) (a : Archive)
    (hpre : ∀ q ∈ pre, fs q = .absent) (hp : fs p = .file a) :
    searchLoop fs (pre ++ p :: post) = .ok (some a) :=
  searchLoop_first hpre hp

/-- Conversely, a bundle that is used is the first one along the search path. -/
theorem used_bundle_is_first (fs : Path → LocState) (paths : List Path) (a : Archive)
    (h : searchLoop fs paths = .ok (some a)) :
    ∃ pre p post, paths = pre ++ p :: post ∧ (∀ q ∈ pre, fs q = .absent) ∧ fs p = .file a :=
  searchLoop_found h

/-- "Unable to locate" exactly when no location holds anything. -/
theorem locate_fails_iff_all_absent (fs : Path → LocState) (paths : List Path) :
    searchLoop fs paths = .ok none ↔ ∀ p ∈ paths, fs p = .absent :=
  searchLoop_none

/-- The executable's directory takes precedence: when it holds a bundle, the
result does not depend on anything else in the file system — in particular not
on what `../libexec` holds. -/
theorem executable_directory_takes_precedence (fs fs' : Path → LocState) (executable : Path)
    (goos goarch : Bytes) (a : Archive)
    (h : fs (dir executable) = .file a) (h' : fs' (dir executable) = .file a) :
    executableForPlatform fs executable goos goarch = executableForPlatform fs' executable goos goarch := by
  have key : ∀ g : Path → LocState, g (dir executable) = .file a →
      searchLoop g (searchPaths executable) = .ok (some a) := by
    intro g hg
    rcases search_path_order executable with ⟨_, hp⟩ | ⟨_, hp⟩ <;> rw [hp] <;> simp [searchLoop, hg]
  unfold executableForPlatform
  rw [key fs h, key fs' h']

/-- `extract_exact`: a successful extraction returns exactly the data of the
first entry named `<goos>_<goarch>` of the first bundle along the search path. -/
theorem extract_exact (fs : Path → LocState) (executable : Path) (goos goarch : Bytes) (x : Extracted)
    (h : executableForPlatform fs executable goos goarch = .ok x) :
    ∃ a, searchLoop fs (searchPaths executable) = .ok (some a) ∧
      ∃ pre e post, a.entries = pre ++ e :: post ∧
        (∀ y ∈ pre, y.name ≠ platformName goos goarch) ∧
        e.name = platformName goos goarch ∧ x.data = e.data := by
  unfold executableForPlatform at h
  split at h
  · cases h
  · cases h
  · rename_i a ha
    split at h
    · cases h
    · split at h
      · cases h
      · rename_i data hscan
        simp only [Except.ok.injEq] at h
        subst h
        obtain ⟨pre, e, post, h1, h2, h3, h4⟩ := scan_ok hscan
        exact ⟨a, ha, pre, e, post, h1, h2, h3, h4.symm⟩

/-- `unknown_platform_rejected`: when the first bundle has no entry named
`<goos>_<goarch>`, the call fails (with "unsupported platform" for a well-formed
archive) — it never falls through to another bundle or invents data. -/
theorem unknown_platform_rejected (fs : Path → LocState) (executable : Path) (goos goarch : Bytes)
    (a : Archive) (ha : searchLoop fs (searchPaths executable) = .ok (some a))
    (hno : ∀ e ∈ a.entries, e.name ≠ platformName goos goarch) :
    ∃ err, executableForPlatform fs executable goos goarch = .error err ∧
      (a.gzipOK = true → a.fin = .eof → err = .unsupported) := by
  unfold executableForPlatform
  rw [ha]
  simp only
  by_cases hg : a.gzipOK = true
  · simp only [hg, Bool.not_true, Bool.false_eq_true, if_false, scan_unknown hno]
    refine ⟨_, rfl, fun _ hf => by simp [hf]⟩
  · simp only [Bool.not_eq_true] at hg
    simp only [hg, Bool.not_false, if_true]
    exact ⟨_, rfl, fun h => by simp at h⟩

/-- Permission bits and naming of the extracted file: executable unless the
target is Windows; `.exe` name exactly for Windows targets. -/
theorem extracted_mode (fs : Path → LocState) (executable : Path) (goos goarch : Bytes) (x : Extracted)
    (h : executableForPlatform fs executable goos goarch = .ok x) :
    (goos = windows → x.mode = 0o600 ∧ x.windowsName = true) ∧
    (goos ≠ windows → x.mode = 0o700 ∧ x.windowsName = false) := by
  unfold executableForPlatform at h
  split at h
  · cases h
  · cases h
  · split at h
    · cases h
    · split at h
      · cases h
      · simp only [Except.ok.injEq] at h
        subst h
        constructor <;> intro hw <;> simp [hw]

/-- The defect of the loop as found in `bundle.go` (no `break`): with bundles
in two locations the *later* one is used. -/
theorem original_loop_last_wins (fs : Path → LocState) (p q : Path) (a b : Archive)
    (hp : fs p = .file a) (hq : fs q = .file b) :
    searchLoopOriginal fs [p, q] none = .ok (some b) ∧ searchLoop fs [p, q] = .ok (some a) := by
  simp [searchLoopOriginal, searchLoop, hp, hq]

/-! Non-vacuity. -/

example :
    let a : Archive := { gzipOK := true, entries := [⟨[1], [10]⟩, ⟨[108, 95, 97], [42, 43]⟩], fin := .eof }
    let b : Archive := { gzipOK := true, entries := [⟨[108, 95, 97], [99]⟩], fin := .eof }
    let fs : Path → LocState := fun p => if p = ["opt", "bin"] then .file a else if p = ["opt", "libexec"] then .file b else .absent
    executableForPlatform fs ["opt", "bin", "mutagen"] [108] [97] = .ok { data := [42, 43], mode := 0o700, windowsName := false } ∧
    executableForPlatformOriginal fs ["opt", "bin", "mutagen"] [108] [97] = .ok { data := [99], mode := 0o700, windowsName := false } := by
  intro a b fs
  exact ⟨by rfl, by rfl⟩

end Mutagen.Properties.C46
