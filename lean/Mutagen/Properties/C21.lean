import Mutagen.Proofs.Remote
import Mutagen.Proofs.ReconcileValid
import Mutagen.Properties.C19
/-!
# C21 — remote endpoints behave exactly like local endpoints

Property theorems only (helper lemmas live in `Mutagen.Proofs.Remote`).
-/
namespace Mutagen.Properties.C21
open Mutagen.Model Mutagen.Model.Remote Mutagen.Proofs.Remote Mutagen.Proofs.ReconcileValid
  Mutagen.Proofs.ReconcileShape

/-- `snapshot_delta_exact`: with an exact rsync engine (C19), for *any* history
of scans — whatever the ancestors, whatever the server reports, from any
client state — the client reconstructs exactly the bytes the server marshalled
(or reports the server's error with its try-again flag). No invariant linking
the client's stored baseline to the server is needed: the baseline is whatever
the client signed in this very request. -/
theorem snapshot_delta_exact {Sig Delta : Type} (c : Codec Sig Delta) (hc : c.Exact)
    (valid hasContent : Bytes → Bool) (st : Client) (hist : List (Bytes × ScanOutcome)) :
    (scanHistory c valid hasContent st hist).1 = hist.map fun h => expectedScan valid h.2 := by
  induction hist generalizing st with
  | nil => rfl
  | cons h rest ih =>
    obtain ⟨anc, o⟩ := h
    simp only [scanHistory, List.map_cons]
    have h1 : (remoteScan c valid hasContent st anc o).1 = expectedScan valid o := by
      cases o with
      | error t => simp [remoteScan, serveScan, clientScan, expectedScan]
      | snapshot b =>
        simp only [remoteScan, serveScan, clientScan, expectedScan, hc _ b]
        by_cases hv : valid b = true <;> simp [hv]
    rw [← h1, ← ih]

/-- The hypothesis of `snapshot_delta_exact` is C19's theorem: the modelled
rsync engine, with any collision-free (here: injective) strong hash and any
positive block size function, is an exact codec. -/
theorem rsync_codec_exact {D : Type} [DecidableEq D] (H : List UInt8 → D)
    (hinj : ∀ a b, H a = H b → a = b) (blockSize : Bytes → Nat) (hbs : ∀ b, 0 < blockSize b) :
    (rsyncCodec H blockSize).Exact := by
  intro base target
  have h := (Mutagen.Properties.C19.patch_deltify H base target (blockSize base) (hbs base) 0
    (Mutagen.Properties.C19.noCollision_of_injective H hinj base target (blockSize base))).2
  simp only [rsyncCodec]
  exact h

/-- `snapshot_delta_exact` with the modelled rsync engine of C19 plugged in. -/
theorem snapshot_delta_exact_rsync {D : Type} [DecidableEq D] (H : List UInt8 → D)
    (hinj : ∀ a b, H a = H b → a = b) (blockSize : Bytes → Nat) (hbs : ∀ b, 0 < blockSize b)
    (valid hasContent : Bytes → Bool) (st : Client) (hist : List (Bytes × ScanOutcome)) :
    (scanHistory (rsyncCodec H blockSize) valid hasContent st hist).1 =
      hist.map fun h => expectedScan valid h.2 :=
  snapshot_delta_exact _ (rsync_codec_exact H hinj blockSize hbs) valid hasContent st hist

/-- `snapshot_delta_exact` needing exactness only for the (baseline, snapshot)
pairs that can occur in the history: the client's initial baseline, the
ancestor-based snapshots and the snapshots received, against the snapshots the
server marshals. -/
theorem snapshot_delta_exact_on {Sig Delta : Type} (c : Codec Sig Delta) (valid hasContent : Bytes → Bool)
    (hist : List (Bytes × ScanOutcome)) : ∀ (st : Client),
    (∀ base target, base ∈ historyBases st hist → target ∈ historyTargets hist → ExactFor c base target) →
    (scanHistory c valid hasContent st hist).1 = hist.map fun h => expectedScan valid h.2 := by
  induction hist with
  | nil => intro st _; rfl
  | cons h rest ih =>
    intro st hex
    obtain ⟨anc, o⟩ := h
    simp only [scanHistory, List.map_cons]
    have hbase : clientBaseline st anc ∈ historyBases st ((anc, o) :: rest) := by
      simp only [clientBaseline, historyBases]
      cases hl : st.last with
      | none => simp
      | some b => simp
    have h1 : (remoteScan c valid hasContent st anc o).1 = expectedScan valid o := by
      cases o with
      | error t => simp [remoteScan, serveScan, clientScan, expectedScan]
      | snapshot b =>
        have hx : ExactFor c (clientBaseline st anc) b :=
          hex _ b hbase (by simp [historyTargets])
        simp only [ExactFor] at hx
        simp only [remoteScan, serveScan, clientScan, expectedScan, hx]
        by_cases hv : valid b = true <;> simp [hv]
    have hrest := ih (remoteScan c valid hasContent st anc o).2 (by
      intro base target hb ht
      refine hex base target ?_ (by
        simp only [historyTargets, List.filterMap_cons] at ht ⊢
        cases o <;> simp_all)
      -- the new baseline is the old one or the snapshot just received
      simp only [historyBases, List.mem_append, List.map_cons, List.mem_cons] at hb ⊢
      rcases hb with (hb | hb) | hb
      · cases o with
        | error t =>
          simp only [remoteScan, serveScan, clientScan] at hb
          exact Or.inl (Or.inl hb)
        | snapshot b =>
          have hx : ExactFor c (clientBaseline st anc) b := hex _ b hbase (by simp [historyTargets])
          simp only [ExactFor] at hx
          simp only [remoteScan, serveScan, clientScan, hx] at hb
          by_cases hv : valid b = true <;> by_cases hh : hasContent b = true <;> simp [hv, hh] at hb
          · right; simp [historyTargets, hb]
          · exact Or.inl (Or.inl (by simp [hb]))
          · exact Or.inl (Or.inl (by simp [hb]))
          · exact Or.inl (Or.inl (by simp [hb]))
      · exact Or.inl (Or.inr (Or.inr hb))
      · right
        simp only [historyTargets, List.filterMap_cons] at hb ⊢
        cases o <;> simp_all)
    rw [← h1, ← hrest]

/-- `snapshot_delta_exact` for the rsync engine of C19 with its hypothesis made
explicit: reconstruction is exact for a history of scans provided the strong
hash does not collide (`NoCollision`, C19) between a block of any byte string
that can serve as the client's baseline in that history and an equally long
window of any snapshot the server marshals in it. Nothing else is assumed about
delta application: the rest is C19's proved theorem `patch_deltify`. -/
theorem snapshot_delta_exact_rsync_noCollision {D : Type} [DecidableEq D] (H : List UInt8 → D)
    (blockSize : Bytes → Nat) (hbs : ∀ b, 0 < blockSize b)
    (valid hasContent : Bytes → Bool) (st : Client) (hist : List (Bytes × ScanOutcome))
    (hnc : ∀ base target, base ∈ historyBases st hist → target ∈ historyTargets hist →
      Mutagen.Proofs.Rsync.NoCollision H base (blockSize base) target) :
    (scanHistory (rsyncCodec H blockSize) valid hasContent st hist).1 =
      hist.map fun h => expectedScan valid h.2 := by
  refine snapshot_delta_exact_on (rsyncCodec H blockSize) valid hasContent hist st ?_
  intro base target hb ht
  have h := (Mutagen.Properties.C19.patch_deltify H base target (blockSize base) (hbs base) 0
    (hnc base target hb ht)).2
  simp only [ExactFor, rsyncCodec]
  exact h

/-- For valid snapshots a remote scan returns what the local endpoint returns. -/
theorem remote_scan_eq_local {Sig Delta : Type} (c : Codec Sig Delta) (hc : c.Exact)
    (valid hasContent : Bytes → Bool) (st : Client) (anc : Bytes) (o : ScanOutcome)
    (hv : ∀ b, o = .snapshot b → valid b = true) :
    (remoteScan c valid hasContent st anc o).1 = localScan o := by
  have := snapshot_delta_exact c hc valid hasContent st [(anc, o)]
  simp only [scanHistory, List.map_cons, List.map_nil, List.cons.injEq, and_true] at this
  rw [this]
  cases o with
  | error t => rfl
  | snapshot b => simp [expectedScan, localScan, hv b rfl]

/-- The stored baseline is always the last valid snapshot with content. -/
theorem baseline_is_last_populated {Sig Delta : Type} (c : Codec Sig Delta) (hc : c.Exact)
    (valid hasContent : Bytes → Bool) (st : Client) (anc : Bytes) (o : ScanOutcome) :
    (remoteScan c valid hasContent st anc o).2.last =
      match o with
      | .snapshot b => if valid b && hasContent b then some b else st.last
      | .error _ => st.last := by
  cases o with
  | error t => simp [remoteScan, serveScan, clientScan]
  | snapshot b =>
    simp only [remoteScan, serveScan, clientScan, hc _ b]
    by_cases hv : valid b = true <;> by_cases hh : hasContent b = true <;> simp [hv, hh]

/-- `stage_paths_roundtrip`: for every non-empty request and every answer of
the underlying endpoint that is an in-order subsequence of the request with
one valid signature per path, the response passes `StageResponse.ensureValid`
and client decompaction ∘ server compaction is the identity: the remote
`Stage` returns exactly what the local endpoint returned. -/
theorem stage_paths_roundtrip (request paths : List String) (sigs : List Bool)
    (hne : request ≠ []) (hsub : paths.Sublist request) (hlen : sigs.length = paths.length)
    (hvalid : sigs.all id = true) :
    stageResponseValid request (serveStage request (.need paths sigs)) = true ∧
    remoteStage request request.length (.need paths sigs) = localStage (.need paths sigs) := by
  have hle : paths.length ≤ request.length := hsub.length_le
  have hrpos : 0 < request.length := List.length_pos_iff.mpr hne
  have hr0 : ¬ request.length = 0 := by omega
  by_cases heq : paths.length = request.length
  · have hpe : paths = request := hsub.eq_of_length heq
    subst hpe
    have hresp : serveStage paths (.need paths sigs) = { paths := [], signatures := sigs } := by
      simp [serveStage]
    have hv : stageResponseValid paths { paths := [], signatures := sigs } = true :=
      valid_of_lengths _ _ rfl hvalid (Or.inr ⟨rfl, hlen⟩)
    rw [hresp]
    refine ⟨hv, ?_⟩
    have hs0 : 0 < sigs.length := by omega
    have hs1 : ¬ sigs.length = 0 := by omega
    simp [remoteStage, clientStage, hresp, hv, localStage, stageRequestValid, hr0, hs0, hne]
  · have hresp : serveStage request (.need paths sigs) = { paths := paths, signatures := sigs } := by
      simp [serveStage, heq]
    have hv : stageResponseValid request { paths := paths, signatures := sigs } = true :=
      valid_of_lengths _ _ rfl hvalid (Or.inl ⟨hlen.symm, hle⟩)
    rw [hresp]
    refine ⟨hv, ?_⟩
    by_cases hp0 : paths.length = 0
    · have hp : paths = [] := List.length_eq_zero_iff.mp hp0
      subst hp
      have hs : sigs = [] := List.length_eq_zero_iff.mp (by simpa using hlen)
      subst hs
      simp [remoteStage, clientStage, hresp, hv, localStage, stageRequestValid, hr0, hne]
    · simp [remoteStage, clientStage, hresp, hv, localStage, stageRequestValid, hr0, hne, hp0]

/-- The controller's check on a staging answer (`filteredPathsAreSubset`)
accepts exactly the in-order subsequences of the request. -/
theorem subset_check_exact (filtered original : List String) :
    filteredPathsAreSubset filtered original = true ↔ filtered.Sublist original :=
  filteredPathsAreSubset_iff filtered original

/-- Outside the hypothesis of `stage_paths_roundtrip` the compaction is lossy:
a same-length answer that is not the request is replaced by the request. -/
theorem compaction_needs_subsequence :
    remoteStage ["a", "b"] 2 (.need ["b", "a"] [true, true]) = .need ["a", "b"] [true, true] := by
  decide

/-- `transitions_pass_remote_validation`: for every mode, every valid
synchronizable ancestor and all valid endpoint contents (names unique within
each directory, as in a Go map), every change `Reconcile` plans for alpha and
for beta satisfies `Change.EnsureValid(true)`: the server-side validation of a
`TransitionRequest` never rejects a plan that a local endpoint would accept. -/
theorem transitions_pass_remote_validation (mode : Mode) (A α β : Option Entry)
    (hA : oensureValid true A = true) (hα : oensureValid false α = true) (hβ : oensureValid false β = true)
    (hu : ouniqueNames β = true) :
    transitionRequestValid (Reconcile A α β mode).alpha = true ∧
    transitionRequestValid (Reconcile A α β mode).beta = true := by
  simp only [transitionRequestValid, List.all_eq_true]
  exact ⟨fun c hc => reconcile_valid mode true [] A α β hA hα hβ hu c (by simpa [side, Reconcile] using hc),
    fun c hc => reconcile_valid mode false [] A α β hA hα hβ hu c (by simpa [side, Reconcile] using hc)⟩

/-- Consequently a remote `Transition` of a planned change list is never
rejected, and with valid results it returns exactly what the endpoint returned. -/
theorem planned_transitions_remote_eq_local (mode : Mode) (A α β : Option Entry)
    (hA : oensureValid true A = true) (hα : oensureValid false α = true) (hβ : oensureValid false β = true)
    (hu : ouniqueNames β = true) (toAlpha : Bool)
    (results : List (Option Entry)) (problems : List (Path × String)) (missing : Bool)
    (hr : transitionResponseValid (side toAlpha (Reconcile A α β mode)).length results problems = true) :
    ∃ rs ps m, remoteTransition (side toAlpha (Reconcile A α β mode)) (.done results problems missing) =
      .done rs ps m ∧ rs = results ∧ ps = problems ∧ m = missing := by
  have hv := transitions_pass_remote_validation mode A α β hA hα hβ hu
  have : transitionRequestValid (side toAlpha (Reconcile A α β mode)) = true := by
    cases toAlpha
    · simpa [side] using hv.2
    · simpa [side] using hv.1
  exact ⟨results, problems, missing, by simp [remoteTransition, this, hr], rfl, rfl, rfl⟩

/-- `completion_in_sync`: in the request / completion / response exchange of
`Poll`, `Scan` and `Transition`, under every schedule of the client's and the
server's goroutines and of the caller's cancellation: whenever no protocol
step is enabled any more, both sides have returned, nothing is in flight on
either stream and no decoder has read a message of another type — so the next
request finds both decoders message-aligned, whichever of response and
cancellation came first. There is no deadlock either: a state in which some
side has not returned always has an enabled step. -/
theorem completion_in_sync (sched : List Step) :
    let w := Wire.run {} sched
    w.quiescent = true → w.returned = true ∧ w.aligned = true := by
  intro w hq
  exact quiescent_returned w (inv_run {} sched inv_init) hq

/-- At every moment of every schedule no decoder has read a message of the
wrong type. -/
theorem never_misaligned (sched : List Step) : (Wire.run {} sched).misaligned = false :=
  (inv_run {} sched inv_init).2.2.1

/-- Non-vacuity: the three characteristic orders all end returned and aligned. -/
example :
    let r := Wire.run {} [.sendRequest, .receiveRequest, .finishOperation, .sendResponse,
      .receiveResponse, .sendCompletion, .receiveCompletion]
    let c := Wire.run {} [.sendRequest, .receiveRequest, .cancelContext, .sendCompletion,
      .receiveCompletion, .finishOperation, .sendResponse, .receiveResponse]
    r.quiescent = true ∧ r.returned = true ∧ c.quiescent = true ∧ c.returned = true := by
  decide

end Mutagen.Properties.C21
