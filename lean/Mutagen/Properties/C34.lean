import Mutagen.Proofs.Handshake
import Mutagen.Proofs.HandshakeFaults
/-!
# C34 — version and magic-number handshakes agree on both sides

Property theorems only (helper lemmas: `Mutagen.Proofs.Handshake`).

`errOn f p inp` is the verdict of side `f` (`clientConnect` = `ClientHandshake`
then `ClientVersionHandshake`, `serverConnect` likewise) built with constants
`p` when the bytes `inp` arrive followed by EOF; `sentOn` is what it wrote.
`expected p` = the peer's magic number followed by the big-endian encoding of
`p`'s own version triple; `reply p` = `p`'s magic number and version.
`session pc ps fsc fcs` is the two-party exchange (failed sides close).
-/
namespace Mutagen.Properties.C34
open Mutagen.Model.Handshake Mutagen.Proofs.Handshake

/-- Big-endian round trip: `Uint32(PutUint32(v)) = v`. -/
theorem be32_roundtrip (v : UInt32) : be32dec (be32 v) = v :=
  Mutagen.Proofs.Handshake.be32_roundtrip v

/-- … and every 4-byte slice is the encoding of what it decodes to, so the
wire encoding of a version triple is unique. -/
theorem be32_decode_encode (a b c d : UInt8) : be32 (be32dec [a, b, c, d]) = [a, b, c, d] :=
  be32_be32dec a b c d

/-- Two parameter sets put the same 12 version bytes on the wire exactly when
major, minor and patch are identical. -/
theorem version_wire_injective (p q : Params) :
    versionBytes p = versionBytes q ↔ p.major = q.major ∧ p.minor = q.minor ∧ p.patch = q.patch :=
  versionBytes_eq_iff p q

/-- The client accepts exactly the incoming streams that start with the magic
number it expects followed by its own version — for *all* byte strings. -/
theorem client_accepts_iff (p : Params) (hM : p.expectMagic.length = 3) (inp : Bytes) :
    errOn clientConnect p inp = .ok ↔ expected p <+: inp :=
  clientConnect_err p hM inp

/-- The server accepts exactly the incoming streams that start with the magic
number it expects followed by its own version. -/
theorem server_accepts_iff (p : Params) (hM : p.expectMagic.length = 3) (inp : Bytes) :
    errOn serverConnect p inp = .ok ↔ expected p <+: inp :=
  serverConnect_err p hM inp

/-- A side that accepts has sent exactly its own magic number and version. -/
theorem accept_sends_reply (p : Params) (hM : p.expectMagic.length = 3) (inp : Bytes) :
    (errOn clientConnect p inp = .ok → sentOn clientConnect p inp = reply p) ∧
    (errOn serverConnect p inp = .ok → sentOn serverConnect p inp = reply p) :=
  ⟨clientConnect_sent_ok p hM inp, serverConnect_sent_ok p hM inp⟩

/-- Truncation: whatever arrives, if fewer than the 3+12 bytes arrive before
EOF, both kinds of side fail. -/
theorem truncated_rejected (p : Params) (hM : p.expectMagic.length = 3) (inp : Bytes)
    (h : inp.length < 15) :
    errOn clientConnect p inp ≠ .ok ∧ errOn serverConnect p inp ≠ .ok := by
  have hl := expected_length p hM
  constructor
  · intro e
    have := ((clientConnect_err p hM inp).mp e).length_le
    omega
  · intro e
    have := ((serverConnect_err p hM inp).mp e).length_le
    omega

/-- Corruption: if any of the first 15 bytes that arrive differs from the
expected handshake, both kinds of side fail. -/
theorem corrupted_rejected (p : Params) (hM : p.expectMagic.length = 3) (inp : Bytes) (i : Nat)
    (hi : i < 15) (h : inp[i]? ≠ (expected p)[i]?) :
    errOn clientConnect p inp ≠ .ok ∧ errOn serverConnect p inp ≠ .ok := by
  have hl := expected_length p hM
  constructor
  · intro e
    exact not_prefix_of_differs _ _ i (by omega) h ((clientConnect_err p hM inp).mp e)
  · intro e
    exact not_prefix_of_differs _ _ i (by omega) h ((serverConnect_err p hM inp).mp e)

/-- In particular: take any stream a side would accept and flip any bits of
any one of its first 15 bytes in transit — the side fails. -/
theorem bit_flip_rejected (p : Params) (hM : p.expectMagic.length = 3) (inp : Bytes) (i : Nat)
    (x : UInt8) (hi : i < 15) (hx : x ≠ 0) (hgood : expected p <+: inp) :
    errOn clientConnect p ((Fault.flip i x).apply inp) ≠ .ok ∧
    errOn serverConnect p ((Fault.flip i x).apply inp) ≠ .ok := by
  have hl := expected_length p hM
  obtain ⟨t, rfl⟩ := hgood
  have hlt : i < (expected p ++ t).length := by simp; omega
  apply corrupted_rejected p hM _ i hi
  simp only [Fault.apply, List.getElem?_eq_getElem hlt]
  rw [List.getElem?_set_self hlt, List.getElem?_eq_getElem (by omega : i < (expected p).length)]
  rw [List.getElem_append_left (by omega)]
  intro e
  exact xor_ne _ x hx (Option.some.inj e)

/-- Two-party agreement over a faithful channel: the client accepts iff the
server accepts iff both sent the magic number the other expects and the
version triples are identical. -/
theorem both_accept_iff (pc ps : Params)
    (h1 : pc.sendMagic.length = 3) (h2 : pc.expectMagic.length = 3)
    (h3 : ps.sendMagic.length = 3) (h4 : ps.expectMagic.length = 3) :
    ((session pc ps .none .none).client = .ok ∧ (session pc ps .none .none).server = .ok) ↔
      (ps.sendMagic = pc.expectMagic ∧ pc.sendMagic = ps.expectMagic ∧
        pc.major = ps.major ∧ pc.minor = ps.minor ∧ pc.patch = ps.patch) := by
  have h := session_faithful pc ps h1 h2 h3 h4
  rw [h.1, h.2, versionBytes_eq_iff]
  constructor
  · intro a; exact a.1
  · intro a; exact ⟨a, a⟩

/-- Any mismatch (a magic number or any version field) makes *both* sides fail:
over a faithful channel the two verdicts always coincide. -/
theorem mismatch_fails_both (pc ps : Params)
    (h1 : pc.sendMagic.length = 3) (h2 : pc.expectMagic.length = 3)
    (h3 : ps.sendMagic.length = 3) (h4 : ps.expectMagic.length = 3) :
    ((session pc ps .none .none).client = .ok ↔ (session pc ps .none .none).server = .ok) ∧
    (¬ (ps.sendMagic = pc.expectMagic ∧ pc.sendMagic = ps.expectMagic ∧
        pc.major = ps.major ∧ pc.minor = ps.minor ∧ pc.patch = ps.patch) →
      (session pc ps .none .none).client ≠ .ok ∧ (session pc ps .none .none).server ≠ .ok) := by
  have h := session_faithful pc ps h1 h2 h3 h4
  refine ⟨by rw [h.1, h.2], ?_⟩
  intro hn
  rw [← versionBytes_eq_iff] at hn
  exact ⟨fun e => hn (h.1.mp e), fun e => hn (h.2.mp e)⟩

/-- The constants of the code under test are well formed (3-byte magic
numbers), the two real sides accept each other, and they exchange exactly
3+12 bytes each way. Re-checked against the regenerated facts on every run. -/
theorem real_sides_accept :
    clientParams.sendMagic.length = 3 ∧ clientParams.expectMagic.length = 3 ∧
    serverParams.sendMagic.length = 3 ∧ serverParams.expectMagic.length = 3 ∧
    (session clientParams serverParams .none .none).client = .ok ∧
    (session clientParams serverParams .none .none).server = .ok ∧
    (session clientParams serverParams .none .none).clientSent.length = 15 ∧
    (session clientParams serverParams .none .none).serverSent.length = 15 := by decide

/-- The two sides of the code under test are matched parties (each expects the
other's magic number, same version). -/
theorem real_sides_matched : Matched clientParams serverParams :=
  ⟨by decide, by decide, by decide, by decide, by decide, by decide, by decide⟩

/-- One in-transit fault on the server→client direction, between matched
parties (`k < 15`: inside the 3+12 bytes; a cut after `k` bytes, or byte `k`
xor-ed with `x ≠ 0`): the client — the receiver of the damaged direction —
always fails. The server fails too, *except* when a byte of the version flight
(`3 ≤ k`) is corrupted: the client has then already answered with its own
magic number and version (`ClientVersionHandshake` sends before it compares),
so the server accepts while the client rejects. -/
theorem transit_fault_server_to_client (pc ps : Params) (m : Matched pc ps) (k : Nat) (x : UInt8)
    (hk : k < 15) (hx : x ≠ 0) :
    ((session pc ps (.trunc k) .none).client ≠ .ok ∧ (session pc ps (.trunc k) .none).server ≠ .ok) ∧
    ((session pc ps (.flip k x) .none).client ≠ .ok ∧
      ((session pc ps (.flip k x) .none).server = .ok ↔ 3 ≤ k)) := by
  by_cases h3 : k < 3
  · have a := trunc_sc_early pc ps m k x h3 hx
    have b := flip_sc_early pc ps m k x h3 hx
    refine ⟨a, b.1, ?_⟩
    constructor
    · intro e; exact absurd e b.2
    · intro e; omega
  · have a := trunc_sc_late pc ps m k x (by omega) hk hx
    have b := flip_sc_late pc ps m k x (by omega) hk hx
    exact ⟨a, b.1, fun _ => by omega, fun _ => b.2⟩

/-- One in-transit fault on the client→server direction, between matched
parties: the server always fails. The client fails too when the fault hits its
magic number (`k < 3`: the server never sends its version); damage to the
client's version flight (`3 ≤ k`) — the last message of the exchange — cannot
be noticed by the client, which has already accepted. -/
theorem transit_fault_client_to_server (pc ps : Params) (m : Matched pc ps) (k : Nat) (x : UInt8)
    (hk : k < 15) (hx : x ≠ 0) :
    ((session pc ps .none (.trunc k)).server ≠ .ok ∧
      ((session pc ps .none (.trunc k)).client = .ok ↔ 3 ≤ k)) ∧
    ((session pc ps .none (.flip k x)).server ≠ .ok ∧
      ((session pc ps .none (.flip k x)).client = .ok ↔ 3 ≤ k)) := by
  by_cases h3 : k < 3
  · have a := trunc_cs_early pc ps m k x h3 hx
    have b := flip_cs_early pc ps m k x h3 hx
    exact ⟨⟨a.2, fun e => absurd e a.1, fun e => by omega⟩, b.2, fun e => absurd e b.1, fun e => by omega⟩
  · have a := trunc_cs_late pc ps m k x (by omega) hk hx
    have b := flip_cs_late pc ps m k x (by omega) hk hx
    exact ⟨⟨a.2, fun _ => by omega, fun _ => a.1⟩, b.2, fun _ => by omega, fun _ => b.1⟩

/-- Non-vacuity of the mismatch theorem: a server one patch level ahead is
rejected by the client and rejects the client. -/
example :
    (session clientParams { serverParams with patch := serverParams.patch + 1 } .none .none).client = .reject ∧
    (session clientParams { serverParams with patch := serverParams.patch + 1 } .none .none).server = .reject := by
  decide

end Mutagen.Properties.C34
