import Mutagen.Proofs.Handshake
/-!
# C34 — version and magic-number handshakes agree on both sides

Property theorems only (helper lemmas: `Mutagen.Proofs.Handshake`).

`errOn f p inp` is the verdict of side `f` (`clientConnect` = `ClientHandshake`
then `ClientVersionHandshake`, `serverConnect` likewise) built with constants
`p` when the bytes `inp` arrive followed by EOF; `sentOn` is what it wrote.
`expected p` = the peer's magic number followed by the big-endian encoding of
`p`'s own version triple; `reply p` = `p`'s magic number and version.
`session pc ps fsc fcs` is the two-party exchange (failed sides close).
-/
namespace Mutagen.Properties.C34
open Mutagen.Model.Handshake Mutagen.Proofs.Handshake

/-- Big-endian round trip: `Uint32(PutUint32(v)) = v`. -/
theorem be32_roundtrip (v : UInt32) : be32dec (be32 v) = v :=
  Mutagen.Proofs.Handshake.be32_roundtrip v

/-- … and every 4-byte slice is the encoding of what it decodes to, so the
wire encoding of a version triple is unique. -/
theorem be32_decode_encode (a b c d : UInt8) : be32 (be32dec [a, b, c, d]) = [a, b, c, d] :=
  be32_be32dec a b c d

/-- Two parameter sets put the same 12 version bytes on the wire exactly when
major, minor and patch are identical. -/
theorem version_wire_injective (p q : Params) :
    versionBytes p = versionBytes q ↔ p.major = q.major ∧ p.minor = q.minor ∧ p.patch = q.patch :=
  versionBytes_eq_iff p q

/-- The client accepts exactly the incoming streams that start with the magic
number it expects followed by its own version — for *all* byte strings. -/
theorem client_accepts_iff (p : Params) (hM : p.expectMagic.length = 3) (inp : Bytes) :
    errOn clientConnect p inp = .ok ↔ expected p <+: inp :=
  clientConnect_err p hM inp

/-- The server accepts exactly the incoming streams that start with the magic
number it expects followed by its own version. -/
theorem server_accepts_iff (p : Params) (hM : p.expectMagic.length = 3) (inp : Bytes) :
    errOn serverConnect p inp = .ok ↔ expected p <+: inp :=
  serverConnect_err p hM inp

/-- A side that accepts has sent exactly its own magic number and version. -/
theorem accept_sends_reply (p : Params) (hM : p.expectMagic.length = 3) (inp : Bytes) :
    (errOn clientConnect p inp = .ok → sentOn clientConnect p inp = reply p) ∧
    (errOn serverConnect p inp = .ok → sentOn serverConnect p inp = reply p) :=
  ⟨clientConnect_sent_ok p hM inp, serverConnect_sent_ok p hM inp⟩

/-- Truncation: whatever arrives, if fewer than the 3+12 bytes arrive before
EOF, both kinds of side fail. -/
theorem truncated_rejected (p : Params) (hM : p.expectMagic.length = 3) (inp : Bytes)
    (h : inp.length < 15) :
    errOn clientConnect p inp ≠ .ok ∧ errOn serverConnect p inp ≠ .ok := by
  have hl := expected_length p hM
  constructor
  · intro e
    have := ((clientConnect_err p hM inp).mp e).length_le
    omega
  · intro e
    have := ((serverConnect_err p hM inp).mp e).length_le
    omega

/-- Corruption: if any of the first 15 bytes that arrive differs from the
expected handshake, both kinds of side fail. -/
theorem corrupted_rejected (p : Params) (hM : p.expectMagic.length = 3) (inp : Bytes) (i : Nat)
    (hi : i < 15) (h : inp[i]? ≠ (expected p)[i]?) :
    errOn clientConnect p inp ≠ .ok ∧ errOn serverConnect p inp ≠ .ok := by
  have hl := expected_length p hM
  constructor
  · intro e
    exact not_prefix_of_differs _ _ i (by omega) h ((clientConnect_err p hM inp).mp e)
  · intro e
    exact not_prefix_of_differs _ _ i (by omega) h ((serverConnect_err p hM inp).mp e)

/-- In particular: take any stream a side would accept and flip any bits of
any one of its first 15 bytes in transit — the side fails. -/
theorem bit_flip_rejected (p : Params) (hM : p.expectMagic.length = 3) (inp : Bytes) (i : Nat)
    (x : UInt8) (hi : i < 15) (hx : x ≠ 0) (hgood : expected p <+: inp) :
    errOn clientConnect p ((Fault.flip i x).apply inp) ≠ .ok ∧
    errOn serverConnect p ((Fault.flip i x).apply inp) ≠ .ok := by
  have hl := expected_length p hM
  obtain ⟨t, rfl⟩ := hgood
  have hlt : i < (expected p ++ t).length := by simp; omega
  apply corrupted_rejected p hM _ i hi
  simp only [Fault.apply, List.getElem?_eq_getElem hlt]
  rw [List.getElem?_set_self hlt, List.getElem?_eq_getElem (by omega : i < (expected p).length)]
  rw [List.getElem_append_left (by omega)]
  intro e
  exact xor_ne _ x hx (Option.some.inj e)

/-- Two-party agreement over a faithful channel: the client accepts iff the
server accepts iff both sent the magic number the other expects and the
version triples are identical. -/
theorem both_accept_iff (pc ps : Params)
    (h1 : pc.sendMagic.length = 3) (h2 : pc.expectMagic.length = 3)
    (h3 : ps.sendMagic.length = 3) (h4 : ps.expectMagic.length = 3) :
    ((session pc ps .none .none).client = .ok ∧ (session pc ps .none .none).server = .ok) ↔
      (ps.sendMagic = pc.expectMagic ∧ pc.sendMagic = ps.expectMagic ∧
        pc.major = ps.major ∧ pc.minor = ps.minor ∧ pc.patch = ps.patch) := by
  have h := session_faithful pc ps h1 h2 h3 h4
  rw [h.1, h.2, versionBytes_eq_iff]
  constructor
  · intro a; exact a.1
  · intro a; exact ⟨a, a⟩

/-- Any mismatch (a magic number or any version field) makes *both* sides fail:
over a faithful channel the two verdicts always coincide. -/
theorem mismatch_fails_both (pc ps : Params)
    (h1 : pc.sendMagic.length = 3) (h2 : pc.expectMagic.length = 3)
    (h3 : ps.sendMagic.length = 3) (h4 : ps.expectMagic.length = 3) :
    ((session pc ps .none .none).client = .ok ↔ (session pc ps .none .none).server = .ok) ∧
    (¬ (ps.sendMagic = pc.expectMagic ∧ pc.sendMagic = ps.expectMagic ∧
        pc.major = ps.major ∧ pc.minor = ps.minor ∧ pc.patch = ps.patch) →
      (session pc ps .none .none).client ≠ .ok ∧ (session pc ps .none .none).server ≠ .ok) := by
  have h := session_faithful pc ps h1 h2 h3 h4
  refine ⟨by rw [h.1, h.2], ?_⟩
  intro hn
  rw [← versionBytes_eq_iff] at hn
  exact ⟨fun e => hn (h.1.mp e), fun e => hn (h.2.mp e)⟩

/-- The constants of the code under test are well formed (3-byte magic
numbers), the two real sides accept each other, and they exchange exactly
3+12 bytes each way. Re-checked against the regenerated facts on every run. -/
theorem real_sides_accept :
    clientParams.sendMagic.length = 3 ∧ clientParams.expectMagic.length = 3 ∧
    serverParams.sendMagic.length = 3 ∧ serverParams.expectMagic.length = 3 ∧
    (session clientParams serverParams .none .none).client = .ok ∧
    (session clientParams serverParams .none .none).server = .ok ∧
    (session clientParams serverParams .none .none).clientSent.length = 15 ∧
    (session clientParams serverParams .none .none).serverSent.length = 15 := by decide

/-- Non-vacuity of the mismatch theorem: a server one patch level ahead is
rejected by the client and rejects the client. -/
example :
    (session clientParams { serverParams with patch := serverParams.patch + 1 } .none .none).client = .reject ∧
    (session clientParams { serverParams with patch := serverParams.patch + 1 } .none .none).server = .reject := by
  decide

end Mutagen.Properties.C34
