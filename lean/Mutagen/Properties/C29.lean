import Mutagen.Model.Lifecycle
import Mutagen.Proofs.Lifecycle
import Mutagen.Proofs.Lifecycle2
/-!
# C29 — session lifecycle commands take effect exactly as documented

Theorems about runs of the step model `Mutagen.Model.Lifecycle` from the empty
initial state: every interleaving of client calls (create, pause, resume,
flush, reset, terminate, manager restart) with the steps of the run loop.
-/
namespace Mutagen.Properties.C29
open Mutagen.Model.Lifecycle Mutagen.Proofs.Lifecycle

/-- Nothing happens before the first client call. -/
theorem init_quiet (w : Bool) : succ (init w) = [] := by
  simp [succ, init]

/-- **A paused session is silent.** In every reachable state in which the
persisted `Paused` flag is set, no step that is an endpoint call (connect, poll,
scan, stage, supply, transition, shutdown) is enabled: while the flag is on
disk, nothing happens at the endpoints, whatever the clients and the run loop
do. -/
theorem paused_session_is_silent {w : Bool} {tr : List Label} {s : State} (r : Run (init w) tr s)
    (hp : s.sess = some true) {l : Label} {s' : State} (st : Step s l s') : l.isEndpoint = false := by
  have i := invA_run r
  cases st with
  | call h => rfl
  | internal h =>
    cases hl : l.isEndpoint with
    | false => rfl
    | true =>
      exfalso
      unfold succ at h
      rcases List.mem_append.mp h with h | h
      · cases hlp : s.loop with
        | none => simp [hlp] at h
        | some lp =>
          have := i.running_sess (i.loop_running (by simp [hlp]))
          rw [hp] at this
          simp at this
      · obtain ⟨th, _, h⟩ := List.mem_flatMap.mp h
        obtain ⟨_, t, ph, hc, hne⟩ := threadSteps_endpoint h hl
        obtain ⟨_, _, h1, h2⟩ := i.crit_conn t ph hc hne
        cases ph with
        | stopping => exact hne rfl
        | connA c =>
          cases c
          · have := (h1 (Or.inl rfl)).1; rw [hp] at this; simp at this
          · have := (h2 (Or.inl rfl)).1; rw [hp] at this; simp at this
        | connB c =>
          cases c
          · have := (h1 (Or.inr rfl)).1; rw [hp] at this; simp at this
          · have := (h2 (Or.inr rfl)).1; rw [hp] at this; simp at this

/-- **Only a resume, a reset or a terminate ends the pause.** A step from a
reachable state with the persisted `Paused` flag set either keeps it set, or is
the critical section of a `resume`/`reset` call (which clears the flag on disk
*before* it connects the endpoints, still holding the lifecycle lock), or of a
`terminate` call (which removes the file and disables the controller). In
particular a manager restart does not touch it. -/
theorem pause_ends_only_by_resume_reset_terminate {w : Bool} {tr : List Label} {s : State}
    (r : Run (init w) tr s) (hp : s.sess = some true) {l : Label} {s' : State} (st : Step s l s') :
    s'.sess = some true ∨
    (∃ th ∈ s.threads, (th.op = .resume ∨ th.op = .reset) ∧ s'.sess = some false ∧
      s'.crit = some (th.id, .connA false)) ∨
    (∃ th ∈ s.threads, th.op = .terminate ∧ s'.sess = none ∧ s'.disabled = true) := by
  have i := invA_run r
  cases st with
  | call h =>
    left
    unfold doCall at h
    split at h
    · simp at h
    · simp only [Option.some.injEq] at h; subst h; exact hp
  | internal h =>
    unfold succ at h
    rcases List.mem_append.mp h with h | h
    · cases hlp : s.loop with
      | none => simp [hlp] at h
      | some lp =>
        simp only [hlp] at h
        left
        rw [(loopSteps_frame h).1]; exact hp
    · obtain ⟨th, hth, h⟩ := List.mem_flatMap.mp h
      rcases threadSteps_sess h i hp with h1 | h1 | h1
      · exact Or.inl h1
      · exact Or.inr (Or.inl ⟨th, hth, h1⟩)
      · exact Or.inr (Or.inr ⟨th, hth, h1⟩)

end Mutagen.Properties.C29
