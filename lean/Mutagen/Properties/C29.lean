import Mutagen.Model.Lifecycle
import Mutagen.Proofs.Lifecycle
import Mutagen.Proofs.Lifecycle2
import Mutagen.Proofs.Lifecycle3
import Mutagen.Proofs.Lifecycle4
import Mutagen.Proofs.Lifecycle5
import Mutagen.Proofs.Lifecycle6
import Mutagen.Proofs.Lifecycle7
import Mutagen.Proofs.Lifecycle8
import Mutagen.Proofs.Lifecycle9
import Mutagen.Proofs.Lifecycle10
import Mutagen.Proofs.Lifecycle11
/-!
# C29 — session lifecycle commands take effect exactly as documented

Theorems about runs of the step model `Mutagen.Model.Lifecycle` from the empty
initial state: every interleaving of client calls (create, pause, resume,
flush, reset, terminate, manager restart) with the steps of the run loop.
-/
namespace Mutagen.Properties.C29
open Mutagen.Model.Lifecycle Mutagen.Proofs.Lifecycle

/-- Nothing happens before the first client call. -/
theorem init_quiet (w : Bool) : succ (init w) = [] := by
  simp [succ, init]

/-- **A paused session is silent.** In every reachable state in which the
persisted `Paused` flag is set, no step that is an endpoint call (connect, poll,
scan, stage, supply, transition, shutdown) is enabled: while the flag is on
disk, nothing happens at the endpoints, whatever the clients and the run loop
do. -/
theorem paused_session_is_silent {w : Bool} {tr : List Label} {s : State} (r : Run (init w) tr s)
    (hp : s.sess = some true) {l : Label} {s' : State} (st : Step s l s') : l.isEndpoint = false := by
  have i := invA_run r
  cases st with
  | call h => rfl
  | internal h =>
    cases hl : l.isEndpoint with
    | false => rfl
    | true =>
      exfalso
      unfold succ at h
      rcases List.mem_append.mp h with h | h
      · cases hlp : s.loop with
        | none => simp [hlp] at h
        | some lp =>
          have := i.running_sess (i.loop_running (by simp [hlp]))
          rw [hp] at this
          simp at this
      · obtain ⟨th, _, h⟩ := List.mem_flatMap.mp h
        obtain ⟨_, t, ph, hc, hne⟩ := threadSteps_endpoint h hl
        obtain ⟨_, _, h1, h2⟩ := i.crit_conn t ph hc hne
        cases ph with
        | stopping => exact hne rfl
        | connA c =>
          cases c
          · have := (h1 (Or.inl rfl)).1; rw [hp] at this; simp at this
          · have := (h2 (Or.inl rfl)).1; rw [hp] at this; simp at this
        | connB c =>
          cases c
          · have := (h1 (Or.inr rfl)).1; rw [hp] at this; simp at this
          · have := (h2 (Or.inr rfl)).1; rw [hp] at this; simp at this

/-- **Only a resume, a reset or a terminate ends the pause.** A step from a
reachable state with the persisted `Paused` flag set either keeps it set, or is
the critical section of a `resume`/`reset` call (which clears the flag on disk
*before* it connects the endpoints, still holding the lifecycle lock), or of a
`terminate` call (which removes the file and disables the controller). In
particular a manager restart does not touch it. -/
theorem pause_ends_only_by_resume_reset_terminate {w : Bool} {tr : List Label} {s : State}
    (r : Run (init w) tr s) (hp : s.sess = some true) {l : Label} {s' : State} (st : Step s l s') :
    s'.sess = some true ∨
    (∃ th ∈ s.threads, (th.op = .resume ∨ th.op = .reset) ∧ s'.sess = some false ∧
      s'.crit = some (th.id, .connA false)) ∨
    (∃ th ∈ s.threads, th.op = .terminate ∧ s'.sess = none ∧ s'.disabled = true) := by
  have i := invA_run r
  cases st with
  | call h =>
    left
    unfold doCall at h
    split at h
    · simp at h
    · simp only [Option.some.injEq] at h; subst h; exact hp
  | internal h =>
    unfold succ at h
    rcases List.mem_append.mp h with h | h
    · cases hlp : s.loop with
      | none => simp [hlp] at h
      | some lp =>
        simp only [hlp] at h
        left
        rw [(loopSteps_frame h).1]; exact hp
    · obtain ⟨th, hth, h⟩ := List.mem_flatMap.mp h
      rcases threadSteps_sess h i hp with h1 | h1 | h1
      · exact Or.inl h1
      · exact Or.inr (Or.inl ⟨th, hth, h1⟩)
      · exact Or.inr (Or.inr ⟨th, hth, h1⟩)

/-- **`Paused` is persisted before `pause` returns.** In every run, when a
`pause` call returns successfully there is an earlier point of the same run,
during the call (the call `t` is in flight there), at which the `Paused` flag
was on disk and the run loop had terminated (its `done` was closed, after the
endpoints were shut down). Together with `paused_session_is_silent` and
`pause_ends_only_by_resume_reset_terminate`: from that point on nothing
happens at the endpoints until a `resume`/`reset` clears the flag. -/
theorem pause_persisted_before_return {w : Bool} {tr : List Label} {s s' : State} {t : Nat}
    (r : Run (init w) tr s) (st : Step s (.ret t .pause .ok) s') :
    ∃ tr1 s1 tr2, Run (init w) tr1 s1 ∧ Run s1 tr2 s ∧ tr = tr1 ++ tr2 ∧
      s1.sess = some true ∧ s1.loop = none ∧ ∃ y ∈ s1.threads, y.id = t ∧ y.op = .pause := by
  obtain ⟨⟨th, hth, h1, h2, h3⟩, _⟩ := ret_source st
  obtain ⟨tr1, s1, tr2, r1, r2, e, hs, hl, y, hy, hy1, hy2, _⟩ := pause_persisted r th hth h2 h3
  exact ⟨tr1, s1, tr2, r1, r2, e, hs, hl, y, hy, hy1.trans h1, hy2⟩

/-- **Terminate is final.** In every run, when a `terminate` call returns
successfully the session file and the archive are gone, the controller is
disabled with no run loop, and the session is no longer registered with the
manager (so a reload finds nothing and later calls do not find the session). -/
theorem terminate_final {w : Bool} {tr : List Label} {s s' : State} {t : Nat}
    (r : Run (init w) tr s) (st : Step s (.ret t .terminate .ok) s') :
    s'.sess = none ∧ s'.arch = none ∧ s'.running = false ∧ s'.loop = none ∧ s'.crit = none ∧
    s'.disabled = true ∧ s'.entry = false := by
  obtain ⟨⟨th, hth, _, h2, h3⟩, hs'⟩ := ret_source st
  obtain ⟨g, he⟩ := (invT_run r th hth h2).2 h3
  obtain ⟨g1, g2, g3, g4, g5, g6⟩ := g
  subst hs'
  exact ⟨g1, g2, g3, g4, g5, g6, he⟩

/-- … and the state reached is `Dead` (no files, no loop, lock free, controller
disabled, nothing registered) provided nobody is creating a session. -/
theorem terminate_leaves_dead {w : Bool} {tr : List Label} {s s' : State} {t : Nat}
    (r : Run (init w) tr s) (st : Step s (.ret t .terminate .ok) s')
    (hnc : ∀ th ∈ s.threads, th.op ≠ .create true ∧ th.op ≠ .create false) : Dead s' := by
  obtain ⟨h1, h2, h3, h4, h5, h6, _⟩ := terminate_final r st
  refine ⟨h1, h2, h3, h4, h5, Or.inl h6, ?_⟩
  obtain ⟨_, hs'⟩ := ret_source st
  subst hs'
  intro th hth
  simp only [State.dropThread, List.mem_filter] at hth
  exact hnc th hth.1

/-- **A terminated session never runs again.** `Dead` is closed under every
step except the arrival of a `create` call (a new session): whatever calls are
still in flight or arrive later — pause, resume, flush, reset (with
fixes/C29.patch), terminate, manager restarts — the files stay absent, no run
loop is ever started, and no endpoint call is made. -/
theorem dead_stays_dead {s s' : State} {l : Label} (d : Dead s) (st : Step s l s')
    (hl : ∀ t p, l ≠ .call t (.create p)) : Dead s' ∧ l.isEndpoint = false := by
  cases st with
  | call h =>
    rename_i t op
    unfold doCall at h
    split at h
    · simp at h
    · simp only [Option.some.injEq] at h
      subst h
      refine ⟨⟨d.sess, d.arch, d.running, d.loop, d.crit, ?_, ?_⟩, rfl⟩
      · rcases d.unreachable with h | h
        · exact Or.inl h
        · refine Or.inr ⟨h.1, ?_⟩
          intro th hth
          simp only [List.mem_append, List.mem_singleton] at hth
          rcases hth with hth | hth
          · exact h.2 th hth
          · subst hth; simp [mkThread]
      · intro th hth
        simp only [List.mem_append, List.mem_singleton] at hth
        rcases hth with hth | hth
        · exact d.no_create th hth
        · subst hth
          simp only [mkThread]
          exact ⟨fun e => hl t true (by rw [e]), fun e => hl t false (by rw [e])⟩
  | internal h =>
    unfold succ at h
    rcases List.mem_append.mp h with h | h
    · simp [d.loop] at h
    · obtain ⟨th, hth, h⟩ := List.mem_flatMap.mp h
      refine ⟨dead_thread hth h d, ?_⟩
      cases hle : l.isEndpoint with
      | false => rfl
      | true =>
        obtain ⟨_, t, ph, hc, _⟩ := threadSteps_endpoint h hle
        rw [d.crit] at hc
        simp at hc

/-- **Client calls never tell an endpoint to change anything.** The only endpoint
calls made by `create`, `pause`, `resume`, `flush`, `reset`, `terminate` or a
manager restart themselves are the two connects of `newSession`, `resume` and
`reset`, made while holding the lifecycle lock; every scan, staging, supply,
transition, poll and shutdown is a step of the run loop. In particular a
`reset` issues no endpoint mutation. -/
theorem calls_only_connect {s : State} {th : Thread} {l : Label} {s' : State}
    (h : (l, s') ∈ threadSteps s th) (he : l.isEndpoint = true) : ∃ sd, l = .ep (.conn sd) :=
  (threadSteps_endpoint h he).1

/-- **The archive is written only by an idle controller or by the loop's own
save.** In every run, a step that changes the archive file either happens
while no run loop exists (create, reset, terminate: they stop the loop first,
holding the lifecycle lock), or is the run loop saving its ancestor at the end
of a cycle. So a `reset` is never overwritten by a loop that still holds the
old ancestor. -/
theorem archive_written_when_idle_or_by_cycle {w : Bool} {tr : List Label} {s s' : State} {l : Label}
    (r : Run (init w) tr s) (st : Step s l s') : s'.arch = s.arch ∨ s.loop = none ∨ s'.arch = some true := by
  have i := invA_run r
  cases st with
  | call h =>
    left
    unfold doCall at h
    split at h
    · simp at h
    · simp only [Option.some.injEq] at h; subst h; rfl
  | internal h =>
    unfold succ at h
    rcases List.mem_append.mp h with h | h
    · cases hl : s.loop with
      | none => simp [hl] at h
      | some lp =>
        simp only [hl] at h
        rcases loopSteps_arch h with h1 | h1
        · exact Or.inl h1
        · exact Or.inr (Or.inr h1)
    · obtain ⟨th, _, h⟩ := List.mem_flatMap.mp h
      rcases threadSteps_arch h (loop_none_of_not_running i)
        (fun t c hc => (i.crit_conn t _ hc (by simp)).1) with h1 | h1
      · exact Or.inl h1
      · exact Or.inr (Or.inl h1)

/-- **Every scan is told the ancestor that is on disk.** In every run, the
ancestor flag passed to an endpoint's `Scan` is exactly "the archive on disk is
non-empty": after a `reset` (or a create) and until a cycle completes, scans
see the empty ancestor, which under two-way-safe reconciliation deletes
nothing (C01). -/
theorem scan_is_told_the_disk_ancestor {w : Bool} {tr : List Label} {s s' : State} {sd : Side} {f a : Bool}
    (r : Run (init w) tr s) (st : Step s (.ep (.scanS sd f a)) s') : a = (s.arch == some true) := by
  have iB := invB_run r
  cases st with
  | internal h =>
    unfold succ at h
    rcases List.mem_append.mp h with h | h
    · cases hl : s.loop with
      | none => simp [hl] at h
      | some lp =>
        simp only [hl] at h
        obtain ⟨h1, _, h3⟩ := loopSteps_scanS h
        rw [h3]
        exact iB lp hl (by rw [h1]; rfl)
    · obtain ⟨th, _, h⟩ := List.mem_flatMap.mp h
      obtain ⟨⟨sd', he⟩, _⟩ := threadSteps_endpoint h rfl
      simp at he

/-- **Reset clears the history before it returns.** In every run, when a
`reset` call returns successfully there is an earlier point of the same run,
during the call, at which the archive on disk was the empty one. -/
theorem reset_clears_history_before_return {w : Bool} {tr : List Label} {s s' : State} {t : Nat}
    (r : Run (init w) tr s) (st : Step s (.ret t .reset .ok) s') :
    ∃ tr1 s1 tr2, Run (init w) tr1 s1 ∧ Run s1 tr2 s ∧ tr = tr1 ++ tr2 ∧
      s1.arch = some false ∧ ∃ y ∈ s1.threads, y.id = t ∧ y.op = .reset := by
  obtain ⟨⟨th, hth, h1, h2, h3⟩, _⟩ := ret_source st
  obtain ⟨tr1, s1, tr2, r1, r2, e, ha, y, hy, hy1, hy2, _⟩ := reset_cleared r th hth h2 h3
  exact ⟨tr1, s1, tr2, r1, r2, e, ha, y, hy, hy1.trans h1, hy2⟩

/-- **A waiting flush succeeds only after a complete full cycle for its own
request.** In every run, when a waiting `flush` call returns successfully, its
ghost record says: the run loop received its request, then started a *full*
scan on alpha and on beta while serving it (`fullA`, `fullB` are set only by
the `scanS … full=true` events of the loop while it serves this call's request,
and are false when the call is issued), both scans ended successfully after
that (`okA`, `okB` are set only by the `scanE … ok` events, to the value of
`fullA`/`fullB` at that time), and the loop went through the rest of the cycle
to the point where it saves the ancestor and answers the request. -/
theorem flush_wait_sound {w : Bool} {tr : List Label} {s s' : State} {t : Nat}
    (r : Run (init w) tr s) (st : Step s (.ret t (.flush true) .ok) s') :
    ∃ x ∈ s.threads, x.id = t ∧ x.answered = true ∧
      x.fullA = true ∧ x.fullB = true ∧ x.okA = true ∧ x.okB = true := by
  obtain ⟨⟨th, hth, h1, h2, h3⟩, _⟩ := ret_source st
  have i := invF_run r
  have ha := i.done th hth h2 h3
  obtain ⟨b1, b2, b3, b4⟩ := i.ans th hth ha
  exact ⟨th, hth, h1, ha, b1, b2, b3, b4⟩

/-- **A waiting flush succeeds only after a complete full cycle that started
after the call — on the trace.** In every run of the model, if a waiting `flush`
call `t` returns successfully, then the trace of the run has the form
`pre ++ [call t flush] ++ post`, and `post` — the part between the call event
and the return — contains, for alpha and for beta alike, the start of a *full*
scan of that endpoint followed later by the successful end of a scan of that
endpoint. (These are the events of the cycle that served the request: the
ghost fields `fullA/fullB/okA/okB` of `flush_wait_sound` are false when the call
is issued, rise only at such events while the loop serves this call's request,
an `ok` field only after its `full` field — `Proofs.Lifecycle.Rel`,
`loopSteps_rel` — and the request is answered only at the end of that cycle,
after the ancestor was saved.) -/
theorem flush_wait_sound_trace {w : Bool} {tr : List Label} {s s' : State} {t : Nat}
    (r : Run (init w) tr s) (st : Step s (.ret t (.flush true) .ok) s') :
    ∃ pre post, tr = pre ++ Label.call t (.flush true) :: post ∧
      (∃ l1 a l2 l3, post = l1 ++ Label.ep (.scanS .alpha true a) :: (l2 ++ Label.ep (.scanE .alpha true) :: l3)) ∧
      (∃ l1 a l2 l3, post = l1 ++ Label.ep (.scanS .beta true a) :: (l2 ++ Label.ep (.scanE .beta true) :: l3)) := by
  obtain ⟨⟨th, hth, h1, h2, h3⟩, _⟩ := ret_source st
  have i := invF_run r
  have ha := i.done th hth h2 h3
  obtain ⟨_, _, b3, b4⟩ := i.ans th hth ha
  obtain ⟨pre, post, e, _, _, hA, hB⟩ := hist_run r th hth
  rw [h1, h2] at e
  refine ⟨pre, post, e, ?_, ?_⟩
  · obtain ⟨l1, x, l2, y, l3, e', hx, hy⟩ := hA b3
    obtain ⟨a, rfl⟩ := isFullScanStart_elim hx
    rw [isScanOk_elim hy] at e'
    exact ⟨l1, a, l2, l3, e'⟩
  · obtain ⟨l1, x, l2, y, l3, e', hx, hy⟩ := hB b4
    obtain ⟨a, rfl⟩ := isFullScanStart_elim hx
    rw [isScanOk_elim hy] at e'
    exact ⟨l1, a, l2, l3, e'⟩

/-- While the loop serves the request of a call that is still in flight: in the
scanning phase the scans are forced (full), and the staging / transition phases
are reached only with both full scans started and successfully ended. -/
theorem serving_a_flush_means_full_scans {w : Bool} {tr : List Label} {s : State} (r : Run (init w) tr s)
    {l : Loop} {t : Nat} (hl : s.loop = some l) (hr : l.req = some t) {x : Thread} (hx : x ∈ s.threads)
    (hid : x.id = t) :
    (l.pc = .scan → l.forced = true) ∧
    ((l.pc = .stageA ∨ l.pc = .supB ∨ l.pc = .stageB ∨ l.pc = .supA ∨ l.pc = .trans) →
      x.fullA = true ∧ x.fullB = true ∧ x.okA = true ∧ x.okB = true) := by
  have i := invF_run r
  exact ⟨fun hpc => ((i.serving l t hl hr x hx hid).1 hpc).1, (i.serving l t hl hr x hx hid).2⟩

/-- **A pause survives a manager restart.** In every run, when a manager
restart (Shutdown + NewManager) returns with the `Paused` flag on disk, the
session is registered with the new manager, its controller is enabled, holds no
lock and runs no loop: the session is still paused (and by
`paused_session_is_silent` nothing happens at its endpoints until a resume),
and a later `resume` will find it. -/
theorem pause_survives_restart {w : Bool} {tr : List Label} {s s' : State} {t : Nat}
    (r : Run (init w) tr s) (st : Step s (.ret t .restart .ok) s') (hp : s.sess = some true) :
    s'.sess = some true ∧ s'.entry = true ∧ s'.disabled = false ∧ s'.running = false ∧
    s'.loop = none ∧ s'.crit = none := by
  obtain ⟨⟨th, hth, _, h2, h3⟩, hs'⟩ := ret_source st
  obtain ⟨_, hpi⟩ := invRs_run r th hth h2 h3
  obtain ⟨h1, h2', h3', h4, h5⟩ := hpi hp
  subst hs'
  exact ⟨hp, h1, h2', h3', h4, h5⟩

/-! Non-vacuity: a run in which a `pause` returns successfully (a session is
created paused and paused again), with the `Paused` flag on disk. -/

example : ∃ tr s s', Run (init false) tr s ∧ Step s (.ret 2 .pause .ok) s' ∧ s.sess = some true := by
  have r0 : Run ex0 [] ex0 := Run.nil
  have r1 := Run.snoc r0 (Step.call (t := 1) (op := .create true) (s' := ex1) (by decide))
  have r2 := Run.snoc r1 (Step.internal (l := .tau) (s' := ex2) (by decide))
  have r3 := Run.snoc r2 (Step.internal (l := .ret 1 (.create true) .ok) (s' := ex3) (by decide))
  have r4 := Run.snoc r3 (Step.call (t := 2) (op := .pause) (s' := ex4) (by decide))
  have r5 := Run.snoc r4 (Step.internal (l := .tau) (s' := ex5) (by decide))
  have r6 := Run.snoc r5 (Step.internal (l := .tau) (s' := ex6) (by decide))
  exact ⟨_, ex6, ex7, r6, Step.internal (by decide), by decide⟩

end Mutagen.Properties.C29
