import Mutagen.Model.Lifecycle
/-!
# C29 — session lifecycle commands take effect exactly as documented
-/
namespace Mutagen.Properties.C29
open Mutagen.Model.Lifecycle

/-- Nothing happens before the first client call. -/
theorem init_quiet (w : Bool) : succ (init w) = [] := by
  simp [succ, init]

end Mutagen.Properties.C29
