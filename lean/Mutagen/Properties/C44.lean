import Mutagen.Proofs.Logging
/-!
# C44 — log output is one neutralized line per record

Property theorems only (helper lemmas live in `Mutagen.Proofs.Logging`).

`RecordOK scope ts c r` says: `r` is `ts ++ " [" ++ [c] ++ "] "` followed, when
the scope is non-empty, by `"[" ++ scope ++ "] "`, then a body and a final
`'\n'`; that final byte is the only line feed of `r`; `r` contains no ESC and
no CR. `GoodRecord scope r` is `RecordOK` for some clean timestamp text and
some level byte. `Clean s` = `s` has no LF, CR or ESC.
-/
namespace Mutagen.Properties.C44
open Mutagen.Model.Logging

/-- `NeutralizeControlCharacters`: the result has no ESC and no CR, line feeds
are neither added nor removed, and clean text is unchanged. -/
theorem neutralize_spec (s : Bytes) :
    ESC ∉ neutralize s ∧ CR ∉ neutralize s ∧ (LF ∈ neutralize s ↔ LF ∈ s) ∧
      (Clean s → neutralize s = s) :=
  ⟨esc_not_mem_neutralize s, cr_not_mem_neutralize s, lf_mem_neutralize, neutralize_clean⟩

/-- `one_line` for `Logger.write`: for **every** message, every level value and
every clean timestamp / scope text, whatever `write` hands to the sink is one
record: level/scope prefix, exactly one line feed (the last byte), no ESC, no CR. -/
theorem write_one_line (scope ts msg out : Bytes) (level : Nat)
    (hts : Clean ts) (hsc : Clean scope) (h : write scope ts level msg = some out) :
    RecordOK scope ts (levelAbbreviation level) out :=
  write_record_ok hts hsc h

/-- `write` panics exactly when the message contains neither LF nor CR — which
`log`/`logf` exclude by appending a newline. -/
theorem write_panics_iff (scope ts msg : Bytes) (level : Nat) :
    write scope ts level msg = none ↔ LF ∉ msg ∧ CR ∉ msg :=
  write_eq_none

/-- Scopes of all loggers derivable from `NewLogger` through `Sublogger`
(including after invalid names, which give the nil logger) consist of word
characters and dots, hence are clean. -/
theorem derived_logger_scope_clean (l : Logger) (h : Derived l) : Clean l.scope :=
  (derived_scope h).clean

/-- Every logged message produces exactly one good record when the logger is
enabled for the level and none otherwise; logging never panics. For every
message (embedded newlines, carriage returns, escape characters, forged
prefixes — all bytes). -/
theorem log_one_record (l : Logger) (hl : Derived l) (now msg : Bytes) (level : Nat) (hnow : Clean now) :
    (l.isNil = false ∧ level ≤ l.level ∧
      ∃ r, l.log now level msg = some [r] ∧ RecordOK l.scope now (levelAbbreviation level) r) ∨
    ((l.isNil = true ∨ l.level < level) ∧ l.log now level msg = some []) :=
  log_spec l now msg level hnow (derived_scope hl)

/-- The callback of `Logger.Writer` on one relayed line (no line feed inside —
guaranteed by the line splitter, `line_splitter_spec`): at most one record,
never a panic, and the record is good — also when the line carries a forged or
genuine logger prefix, escape sequences or carriage returns. -/
theorem relay_line_one_record (l : Logger) (hl : Derived l) (now line : Bytes) (level : Nat)
    (hnow : Clean now) (hline : LF ∉ line) :
    ∃ recs, l.relayLine now level line = some recs ∧ recs.length ≤ 1 ∧ ∀ r ∈ recs, GoodRecord l.scope r :=
  relayLine_ok l now line level hnow (derived_scope hl) hline

/-- `one_line` for relayed streams: whatever byte stream is written to
`Logger.Writer(level)`, in whatever chunks and with whatever buffer limit, the
writer never panics and every record it hands to the sink is good. -/
theorem relay_stream_one_line (l : Logger) (hl : Derived l) (level : Nat) (max : Int)
    (now : Bytes) (hnow : Clean now) (chunks : List Bytes) :
    ∃ recs, (RelayWriter.writes { logger := l, level := level, lp := { max := max, buffer := [] } } now chunks).2 = some recs ∧
      ∀ r ∈ recs, GoodRecord l.scope r :=
  relayWriter_writes_ok _ now chunks hnow (derived_scope hl)

/-- Line splitter: the loop of `LineProcessor.Write` splits its input on `'\n'`
(`raw` are the pieces before each line feed, none contains a line feed, the
remainder after the last line feed stays in the buffer) and passes each piece
to the callback with one trailing CR trimmed. -/
theorem line_splitter_spec (s : Bytes) :
    ∃ raw : List Bytes, (splitLoop s).1 = raw.map trimCR ∧
      s = raw.flatMap (· ++ [LF]) ++ (splitLoop s).2 ∧
      (∀ l ∈ raw, LF ∉ l) ∧ LF ∉ (splitLoop s).2 :=
  splitLoop_spec s

/-- Chunking is irrelevant: a processor without buffer limit fed `chunks` one
`Write` at a time calls back exactly the lines of the concatenated stream and
holds the partial last line. -/
theorem line_processor_chunking (max : Int) (hmax : max < 0) (chunks : List Bytes) :
    let p : LineProcessor := { max := max, buffer := [] }
    (p.feed chunks).2 = (splitLoop chunks.flatten).1 ∧ (p.feed chunks).1.buffer = (splitLoop chunks.flatten).2 := by
  have := lineProcessor_feed_unlimited { max := max, buffer := [] } chunks hmax (by simp)
  simpa using And.intro this.1 this.2.1

/-- A write that would exceed the buffer limit is rejected whole: no callback, state unchanged. -/
theorem line_processor_rejects_whole (p : LineProcessor) (data : Bytes)
    (h : (p.write data).2.2 = none) : (p.write data).1 = p ∧ (p.write data).2.1 = [] := by
  revert h
  unfold LineProcessor.write
  simp only
  split
  · intro _; exact ⟨rfl, rfl⟩
  · split
    · intro _; exact ⟨rfl, rfl⟩
    · intro h; simp at h

/-! Non-vacuity: concrete records. -/

/-- A message with an embedded CR, LF, ESC and a forged prefix is truncated at the CR. -/
example : write (ascii "sync") (ascii "2001-02-03 04:05:06.000007") 2
      (ascii "evil\r\n2001-02-03 04:05:06.000007 [E] forged\x1b[2J\n")
    = some (ascii "2001-02-03 04:05:06.000007 [W] [sync] evil...\n") := by decide

/-- An escape byte in a message is neutralized, not dropped. -/
example : write [] (ascii "2001-02-03 04:05:06.000007") 1 (ascii "a\x1b[0mb\n")
    = some (ascii "2001-02-03 04:05:06.000007 [E] a^[[0mb\n") := by decide

/-- A relayed logger line gets the scope injected after its own prefix. -/
example : ({ isNil := false, level := 3, scope := ascii "agent" } : Logger).relayLine (ascii "now") 3
      (ascii "2001-02-03 04:05:06.000007 [I] [remote] hi\rthere")
    = some [ascii "2001-02-03 04:05:06.000007 [I] [agent] [remote] hi\\rthere\n"] := by decide

end Mutagen.Properties.C44
