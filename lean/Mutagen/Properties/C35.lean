import Mutagen.Model.CloseLadder
import Mutagen.Proofs.CloseLadder
/-!
# C35 — closing an agent connection always terminates the agent

Theorems over the timed ladder model of `(*Stream).Close`
(`Mutagen.Model.CloseLadder`), for **every** agent behaviour — exits on its
own, exits some time after its standard input closes, exits some time after
SIGTERM, ignores everything, and every combination, with arbitrary delays —
every termination delay and every pair of grace periods, and every run
(including both resolutions of a `select` whose branches are ready at the same
instant). The OS assumption is that SIGKILL terminates the process within a
finite `killLatency`. Timer accuracy and scheduler promptness are built into
the model's `tick` guard.
-/
namespace Mutagen.Properties.C35
open Mutagen.Model.CloseLadder Mutagen.Proofs.CloseLadder

/-- **Close always returns** (1/2, no deadlock): as long as Close has not
returned, some step is enabled. -/
theorem close_never_stuck (p : Params) (b : Behaviour) (s : State) (hs : Reachable p b s)
    (hr : s.returned = none) : ∃ a s', step p b s a = some s' :=
  progress p b s (inv_reachable p b s hs) hr

/-- **Close always returns** (2/2, no infinite run): every run from the call of
Close has at most `5 + delay + g1 + g2 + killLatency` steps. Together with
`close_never_stuck`: every run can be extended, and only finitely often, so
every maximal run ends with Close having returned. -/
theorem close_terminates (p : Params) (b : Behaviour) (s : State) (as : List Action)
    (hr : run p b (init p b) as = some s) :
    as.length ≤ 5 + p.delay + p.g1 + p.g2 + b.killLatency := by
  have := run_length p b (init p b) s as (inv_init p b) hr
  rw [measure_init] at this
  omega

/-- **The process has exited by the time Close returns.** -/
theorem exited_on_return (p : Params) (b : Behaviour) (s : State) (hs : Reachable p b s)
    (k : Stage) (t : Nat) (hr : s.returned = some (k, t)) : s.alive = false := by
  have hi := inv_reachable p b s hs
  exact hi.waited (hi.returned k t hr).2.2

/-- **Close returns at the agent's exit, in the stage that contains it.** If
Close returned in stage `k` at time `t`, then `t` is the agent's exit time — the
earliest of the reactions that had been triggered by the beginning of stage `k`
(`exitPlan`) —, it lies within stage `k` (not before its beginning, not after
its deadline), and the agent had not exited before the deadline of any earlier
stage (so no earlier stage could have returned without a tie). -/
theorem return_characterisation (p : Params) (b : Behaviour) (s : State) (hs : Reachable p b s)
    (k : Stage) (t : Nat) (hr : s.returned = some (k, t)) :
    exitPlan p b k = some t ∧ startOf p k ≤ t ∧ (∀ dl, deadlineOf p k = some dl → t ≤ dl) ∧
    (k ≠ .wait → ∀ e, exitPlan p b .wait = some e → p.delay ≤ e) ∧
    ((k = .term ∨ k = .kill) → ∀ e, exitPlan p b .stdin = some e → p.delay + p.g1 ≤ e) ∧
    (k = .kill → ∀ e, exitPlan p b .term = some e → p.delay + p.g1 + p.g2 ≤ e) := by
  have hi := inv_reachable p b s hs
  obtain ⟨hk, ht, hw⟩ := hi.returned k t hr
  subst hk; subst ht
  have hal := hi.waited hw
  refine ⟨?_, hi.started, ?_, hi.past_wait, hi.past_stdin, hi.past_term⟩
  · rw [← hi.plan]; exact (hi.exited hal).1
  · intro dl hdl; rw [← hi.deadline] at hdl; exact hi.before_deadline dl hdl

/-- **Earliest stage.** Once the agent has exited strictly before the current
stage's deadline, Close cannot escalate: the only enabled step is the `select`'s
`waitResults` branch, which returns in the current stage at the current time. -/
theorem no_escalation_after_exit (p : Params) (b : Behaviour) (s s' : State) (a : Action)
    (hs : Reachable p b s) (hw : s.waited = true) (hr : s.returned = none) (t : Nat)
    (hd : s.deadline = some t) (hlt : s.now < t) (hstep : step p b s a = some s') :
    a = .recv ∧ s'.returned = some (s.stage, s.now) := by
  have hal := (inv_reachable p b s hs).waited hw
  cases a with
  | tick d => simp [step, hw] at hstep
  | procExit => simp [step, hal] at hstep
  | recv =>
    simp only [step, hw, hr] at hstep
    simp at hstep
    subst hstep
    exact ⟨rfl, rfl⟩
  | fire =>
    simp only [step, hr, hd] at hstep
    simp at hstep
    omega

/-! ### The four behaviour classes (each for arbitrary delays) -/

/-- Exits on its own strictly before the termination delay ⇒ Close returns in
stage `wait`, at the exit time, without touching the process. -/
theorem class_exits_on_own (p : Params) (b : Behaviour) (s : State) (hs : Reachable p b s) (e : Nat)
    (hself : b.self = some e) (hlt : e < p.delay) (k : Stage) (t : Nat)
    (hr : s.returned = some (k, t)) : k = .wait ∧ t = e := by
  obtain ⟨h1, _, _, h4, _, _⟩ := return_characterisation p b s hs k t hr
  cases k with
  | wait => simp only [exitPlan] at h1; rw [hself] at h1; cases h1; exact ⟨rfl, rfl⟩
  | stdin => have := h4 (by simp) e (by simp [exitPlan, hself]); omega
  | term => have := h4 (by simp) e (by simp [exitPlan, hself]); omega
  | kill => have := h4 (by simp) e (by simp [exitPlan, hself]); omega

/-- Does not exit on its own but exits `r < g1` after its standard input
closes ⇒ Close returns in stage `stdin` at `delay + r`; SIGTERM is never sent. -/
theorem class_exits_on_stdin_close (p : Params) (b : Behaviour) (s : State) (hs : Reachable p b s)
    (r : Nat) (hself : b.self = none) (hin : b.onStdin = some r) (hlt : r < p.g1) (k : Stage) (t : Nat)
    (hr : s.returned = some (k, t)) : k = .stdin ∧ t = p.delay + r := by
  obtain ⟨h1, h2, _, _, h5, _⟩ := return_characterisation p b s hs k t hr
  have hplan : exitPlan p b .stdin = some (p.delay + r) := by simp [exitPlan, hself, hin, omin]
  cases k with
  | wait => simp [exitPlan, hself] at h1
  | stdin => rw [hplan] at h1; cases h1; exact ⟨rfl, rfl⟩
  | term => have := h5 (Or.inl rfl) _ hplan; omega
  | kill => have := h5 (Or.inr rfl) _ hplan; omega

/-- Ignores its standard input, exits `r < g2` after SIGTERM ⇒ Close returns in
stage `term` at `delay + g1 + r`; SIGKILL is never sent. -/
theorem class_exits_on_sigterm (p : Params) (b : Behaviour) (s : State) (hs : Reachable p b s)
    (r : Nat) (hself : b.self = none) (hin : b.onStdin = none) (hterm : b.onTerm = some r)
    (hlt : r < p.g2) (k : Stage) (t : Nat) (hr : s.returned = some (k, t)) :
    k = .term ∧ t = p.delay + p.g1 + r := by
  obtain ⟨h1, _, _, _, _, h6⟩ := return_characterisation p b s hs k t hr
  have hplan : exitPlan p b .term = some (p.delay + p.g1 + r) := by
    simp [exitPlan, hself, hin, hterm, omin]
  cases k with
  | wait => simp [exitPlan, hself] at h1
  | stdin => simp [exitPlan, hself, hin, omin] at h1
  | term => rw [hplan] at h1; cases h1; exact ⟨rfl, rfl⟩
  | kill => have := h6 rfl _ hplan; omega

/-- Ignores everything ⇒ Close returns in stage `kill`, `killLatency` after the
end of the second grace period — and it does return (`close_terminates`). -/
theorem class_ignores_everything (p : Params) (b : Behaviour) (s : State) (hs : Reachable p b s)
    (hself : b.self = none) (hin : b.onStdin = none) (hterm : b.onTerm = none) (k : Stage) (t : Nat)
    (hr : s.returned = some (k, t)) : k = .kill ∧ t = p.delay + p.g1 + p.g2 + b.killLatency := by
  obtain ⟨h1, _, _, _, _, _⟩ := return_characterisation p b s hs k t hr
  cases k with
  | wait => simp [exitPlan, hself] at h1
  | stdin => simp [exitPlan, hself, hin, omin] at h1
  | term => simp [exitPlan, hself, hin, hterm, omin] at h1
  | kill => simp [exitPlan, hself, hin, hterm, omin] at h1; exact ⟨rfl, h1.symm⟩

/-! ### Non-vacuity: concrete runs -/

/-- An agent that reacts to nothing is killed: Close returns in stage `kill`. -/
example :
    ((run ⟨800, 1000, 1000⟩ ⟨none, none, none, 5⟩ (init ⟨800, 1000, 1000⟩ ⟨none, none, none, 5⟩)
      [.tick 800, .fire, .tick 1000, .fire, .tick 1000, .fire, .tick 5, .procExit, .recv]).map
      fun s => (s.returned, s.alive)) = some (some (.kill, 2805), false) := by
  decide

/-- An agent that exits 100 ms after its input closes: stage `stdin`. -/
example :
    ((run ⟨800, 1000, 1000⟩ ⟨none, some 100, none, 5⟩ (init ⟨800, 1000, 1000⟩ ⟨none, some 100, none, 5⟩)
      [.tick 800, .fire, .tick 100, .procExit, .recv]).map
      fun s => s.returned) = some (some (.stdin, 900)) := by
  decide

/-- A tie (exit exactly at the termination delay): both stages are possible. -/
example :
    ((outcomes ⟨800, 1000, 1000⟩ ⟨some 800, none, none, 5⟩ 32 (init ⟨800, 1000, 1000⟩ ⟨some 800, none, none, 5⟩)).map
      fun r => r.1) = [.wait, .stdin] := by
  decide

end Mutagen.Properties.C35
