import Mutagen.Model.CloseLadder
import Mutagen.Proofs.CloseLadder
/-!
# C35 — closing an agent connection always terminates the agent

Theorems over the timed ladder model of `(*Stream).Close`
(`Mutagen.Model.CloseLadder`), for **every** agent behaviour — exits on its
own, exits some time after its standard input closes, exits some time after
SIGTERM, ignores everything, and every combination, with arbitrary delays —
every termination delay and every pair of grace periods, and every run
(including both resolutions of a `select` whose branches are ready at the same
instant). The OS assumption is that SIGKILL terminates the process within a
finite `killLatency`. Timer accuracy and scheduler promptness are built into
the model's `tick` guard.
-/
namespace Mutagen.Properties.C35
open Mutagen.Model.CloseLadder Mutagen.Proofs.CloseLadder

/-- **Close always returns** (1/2, no deadlock): as long as Close has not
returned, some step is enabled. -/
theorem close_never_stuck (p : Params) (b : Behaviour) (s : State) (hs : Reachable p b s)
    (hr : s.returned = none) : ∃ a s', step p b s a = some s' :=
  progress p b s (inv_reachable p b s hs) hr

/-- **Close always returns** (2/2, no infinite run): every run from the call of
Close has at most `7 + delay + g1 + g2 + killLatency` steps (the two extra ones:
the descendant's exit and the end of the standard-error copier). Together with
`close_never_stuck`: every run can be extended, and only finitely often, so
every maximal run ends with Close having returned. -/
theorem close_terminates (p : Params) (b : Behaviour) (s : State) (as : List Action)
    (hr : run p b (init p b) as = some s) :
    as.length ≤ 7 + p.delay + p.g1 + p.g2 + b.killLatency := by
  have h1 := run_length p b (init p b) s as (inv_init p b) hr
  have h2 := measure_init p b
  omega

/-- **The process has exited by the time Close returns.** -/
theorem exited_on_return (p : Params) (b : Behaviour) (s : State) (hs : Reachable p b s)
    (k : Stage) (t : Nat) (hr : s.returned = some (k, t)) : s.alive = false := by
  have hi := inv_reachable p b s hs
  exact hi.waited (hi.returned k t hr).2.2

/-- **Close returns at the agent's exit, in the stage that contains it.** If
Close returned in stage `k` at time `t`, then `t` is the agent's exit time — the
earliest of the reactions that had been triggered by the beginning of stage `k`
(`exitPlan`) —, it lies within stage `k` (not before its beginning, not after
its deadline), and the agent had not exited before the deadline of any earlier
stage (so no earlier stage could have returned without a tie). -/
theorem return_characterisation (p : Params) (b : Behaviour) (s : State) (hs : Reachable p b s)
    (k : Stage) (t : Nat) (hr : s.returned = some (k, t)) :
    exitPlan p b k = some t ∧ startOf p k ≤ t ∧ (∀ dl, deadlineOf p k = some dl → t ≤ dl) ∧
    (k ≠ .wait → ∀ e, exitPlan p b .wait = some e → p.delay ≤ e) ∧
    ((k = .term ∨ k = .kill) → ∀ e, exitPlan p b .stdin = some e → p.delay + p.g1 ≤ e) ∧
    (k = .kill → ∀ e, exitPlan p b .term = some e → p.delay + p.g1 + p.g2 ≤ e) := by
  have hi := inv_reachable p b s hs
  obtain ⟨hk, ht, hw⟩ := hi.returned k t hr
  subst hk; subst ht
  have hal := hi.waited hw
  refine ⟨?_, hi.started, ?_, hi.past_wait, hi.past_stdin, hi.past_term⟩
  · rw [← hi.plan]; exact (hi.exited hal).1
  · intro dl hdl; rw [← hi.deadline] at hdl; exact hi.before_deadline dl hdl

/-- **Earliest stage.** Once the agent has exited strictly before the current
stage's deadline, Close cannot escalate: time cannot pass and the timer cannot
fire; the only step of the ladder that is enabled is the `select`'s
`waitResults` branch, which returns in the current stage at the current time.
(The descendant's exit and the copier's end may also happen; they change
nothing the ladder looks at — `holder_steps_invisible`.) -/
theorem no_escalation_after_exit (p : Params) (b : Behaviour) (s s' : State) (a : Action)
    (hs : Reachable p b s) (hw : s.waited = true) (hr : s.returned = none) (t : Nat)
    (hd : s.deadline = some t) (hlt : s.now < t) (hl : isLadder a = true)
    (hstep : step p b s a = some s') :
    a = .recv ∧ s'.returned = some (s.stage, s.now) := by
  have hal := (inv_reachable p b s hs).waited hw
  cases a with
  | tick d => simp [step, hw] at hstep
  | procExit => simp [step, hal] at hstep
  | recv =>
    simp only [step, hw, hr] at hstep
    simp at hstep
    subst hstep
    exact ⟨rfl, rfl⟩
  | fire =>
    simp only [step, hr, hd] at hstep
    simp at hstep
    omega
  | helperExit => simp [isLadder] at hl
  | copyEnd => simp [isLadder] at hl

/-! ### Close does not depend on other holders of the agent's pipes -/

/-- The exit of a descendant that still holds the standard-error pipe, and the
end of the forwarding goroutine, change nothing Close looks at: time, stage,
timer, the agent's fate, `waitResults`, the return. -/
theorem holder_steps_invisible (p : Params) (b : Behaviour) (s s' : State) (a : Action)
    (ha : isLadder a = false) (hs : step p b s a = some s') :
    s'.now = s.now ∧ s'.stage = s.stage ∧ s'.deadline = s.deadline ∧ s'.exitAt = s.exitAt ∧
    s'.alive = s.alive ∧ s'.waited = s.waited ∧ s'.returned = s.returned := by
  apply aux_step_fields p b s s' a _ hs
  cases a <;> simp [isLadder] at ha <;> simp

/-- **Close never waits for another holder.** As long as Close has not returned,
a step *of the ladder itself* is enabled — whatever the descendant does, even
if it never lets go of the pipe, and whether or not the copier has finished. -/
theorem close_never_waits_for_holders (p : Params) (b : Behaviour) (s : State) (hs : Reachable p b s)
    (hr : s.returned = none) : ∃ a s', isLadder a = true ∧ step p b s a = some s' := by
  have hi := inv_reachable p b s hs
  have hic : Inv p b (core s) :=
    ⟨hi.deadline, hi.plan, hi.started, hi.before_deadline, hi.before_exit, hi.exited, hi.waited,
      hi.returned, hi.past_wait, hi.past_stdin, hi.past_term⟩
  obtain ⟨a, s1, hstep⟩ := progress p b (core s) hic hr
  have hl : isLadder a = true := by
    cases a <;> simp [isLadder]
    · simp [step, core] at hstep
    · simp [step, core] at hstep
  rw [step_core p b s a hl] at hstep
  cases hst : step p b s a with
  | none => rw [hst] at hstep; cases hstep
  | some s2 => exact ⟨a, s2, hl, hst⟩

/-- **Holders other than the agent do not matter.** Take any run of Close
against an agent with a descendant that inherited its standard error (and a
stream created with a receiver). Erase the descendant's and the copier's
steps: what remains is a run of Close against the same agent *without* a
descendant, without a receiver and without a pending `Write`, and it ends in a state with the same time,
stage, timer, agent fate and — in particular — the same return. So everything
proved about the ladder (when and in which stage Close returns, that it
returns, that the agent has exited) holds verbatim in the presence of other
holders. -/
theorem holders_do_not_matter (p : Params) (b : Behaviour) (s : State) (as : List Action)
    (hr : run p b (init p b) as = some s) :
    ∃ t, run { p with recv := false, writer := false } { b with holder := false }
        (init { p with recv := false, writer := false } { b with holder := false }) (as.filter isLadder) = some t ∧
      t.returned = s.returned ∧ t.stage = s.stage ∧ t.now = s.now ∧ t.alive = s.alive ∧
      t.waited = s.waited := by
  have h1 := run_core_filter p b (init p b) s as hr
  rw [run_params p { p with recv := false, writer := false } b { b with holder := false } _ _ rfl rfl rfl rfl rfl] at h1
  exact ⟨core s, h1, rfl, rfl, rfl, rfl, rfl⟩

/-! ### A pending `Write` -/

/-- **Close never waits for a blocked writer** either: `close_never_waits_for_holders`
and `holders_do_not_matter` are proved for states and runs in which a `Write` is
blocked (`Params.writer`); no ladder step reads `writerBlocked` (`step_core`).
Conversely **Close unblocks the writer**: once standard input has been closed
(any stage after `wait`) or the agent has been waited for, no `Write` is
blocked. -/
theorem writer_unblocked_by_close (p : Params) (b : Behaviour) (s : State) (hs : Reachable p b s)
    (h : s.stage ≠ .wait ∨ s.waited = true) : s.writerBlocked = false := by
  obtain ⟨as, hr⟩ := hs
  exact writer_run p b (init p b) s as (writer_init p b) hr h

/-- In particular the pending `Write` has been released by the time Close returns. -/
theorem writer_unblocked_on_return (p : Params) (b : Behaviour) (s : State) (hs : Reachable p b s)
    (k : Stage) (t : Nat) (hr : s.returned = some (k, t)) : s.writerBlocked = false :=
  writer_unblocked_by_close p b s hs (Or.inr ((inv_reachable p b s hs).returned k t hr).2.2)

/-! ### The four behaviour classes (each for arbitrary delays) -/

/-- Exits on its own strictly before the termination delay ⇒ Close returns in
stage `wait`, at the exit time, without touching the process. -/
theorem class_exits_on_own (p : Params) (b : Behaviour) (s : State) (hs : Reachable p b s) (e : Nat)
    (hself : b.self = some e) (hlt : e < p.delay) (k : Stage) (t : Nat)
    (hr : s.returned = some (k, t)) : k = .wait ∧ t = e := by
  obtain ⟨h1, _, _, h4, _, _⟩ := return_characterisation p b s hs k t hr
  cases k with
  | wait => simp only [exitPlan] at h1; rw [hself] at h1; cases h1; exact ⟨rfl, rfl⟩
  | stdin => have := h4 (by simp) e (by simp [exitPlan, hself]); omega
  | term => have := h4 (by simp) e (by simp [exitPlan, hself]); omega
  | kill => have := h4 (by simp) e (by simp [exitPlan, hself]); omega

/-- Does not exit on its own but exits `r < g1` after its standard input
closes ⇒ Close returns in stage `stdin` at `delay + r`; SIGTERM is never sent. -/
theorem class_exits_on_stdin_close (p : Params) (b : Behaviour) (s : State) (hs : Reachable p b s)
    (r : Nat) (hself : b.self = none) (hin : b.onStdin = some r) (hlt : r < p.g1) (k : Stage) (t : Nat)
    (hr : s.returned = some (k, t)) : k = .stdin ∧ t = p.delay + r := by
  obtain ⟨h1, h2, _, _, h5, _⟩ := return_characterisation p b s hs k t hr
  have hplan : exitPlan p b .stdin = some (p.delay + r) := by simp [exitPlan, hself, hin, omin]
  cases k with
  | wait => simp [exitPlan, hself] at h1
  | stdin => rw [hplan] at h1; cases h1; exact ⟨rfl, rfl⟩
  | term => have := h5 (Or.inl rfl) _ hplan; omega
  | kill => have := h5 (Or.inr rfl) _ hplan; omega

/-- Ignores its standard input, exits `r < g2` after SIGTERM ⇒ Close returns in
stage `term` at `delay + g1 + r`; SIGKILL is never sent. -/
theorem class_exits_on_sigterm (p : Params) (b : Behaviour) (s : State) (hs : Reachable p b s)
    (r : Nat) (hself : b.self = none) (hin : b.onStdin = none) (hterm : b.onTerm = some r)
    (hlt : r < p.g2) (k : Stage) (t : Nat) (hr : s.returned = some (k, t)) :
    k = .term ∧ t = p.delay + p.g1 + r := by
  obtain ⟨h1, _, _, _, _, h6⟩ := return_characterisation p b s hs k t hr
  have hplan : exitPlan p b .term = some (p.delay + p.g1 + r) := by
    simp [exitPlan, hself, hin, hterm, omin]
  cases k with
  | wait => simp [exitPlan, hself] at h1
  | stdin => simp [exitPlan, hself, hin, omin] at h1
  | term => rw [hplan] at h1; cases h1; exact ⟨rfl, rfl⟩
  | kill => have := h6 rfl _ hplan; omega

/-- Ignores everything ⇒ Close returns in stage `kill`, `killLatency` after the
end of the second grace period — and it does return (`close_terminates`). -/
theorem class_ignores_everything (p : Params) (b : Behaviour) (s : State) (hs : Reachable p b s)
    (hself : b.self = none) (hin : b.onStdin = none) (hterm : b.onTerm = none) (k : Stage) (t : Nat)
    (hr : s.returned = some (k, t)) : k = .kill ∧ t = p.delay + p.g1 + p.g2 + b.killLatency := by
  obtain ⟨h1, _, _, _, _, _⟩ := return_characterisation p b s hs k t hr
  cases k with
  | wait => simp [exitPlan, hself] at h1
  | stdin => simp [exitPlan, hself, hin, omin] at h1
  | term => simp [exitPlan, hself, hin, hterm, omin] at h1
  | kill => simp [exitPlan, hself, hin, hterm, omin] at h1; exact ⟨rfl, h1.symm⟩

/-- The explorer used by the correspondence driver only reports stages in which
Close really can return: every element of `outcomes` is the `returned` value of
a state reachable by a run of the model. -/
theorem outcomes_sound (p : Params) (b : Behaviour) (fuel : Nat) (s : State) (r : Stage × Nat)
    (h : r ∈ outcomes p b fuel s) : ∃ as s', run p b s as = some s' ∧ s'.returned = some r := by
  induction fuel generalizing s with
  | zero => simp [outcomes] at h
  | succ fuel ih =>
    unfold outcomes at h
    split at h
    · rename_i r0 hr0
      simp only [List.mem_singleton] at h
      subst h
      exact ⟨[], s, rfl, hr0⟩
    · simp only at h
      split at h
      · split at h
        · split at h
          · rename_i t _ _ s1 hs1
            obtain ⟨as, s', hrun, hret⟩ := ih s1 h
            exact ⟨.tick (t - s.now) :: as, s', by simp [run, hs1, hrun], hret⟩
          · simp at h
        · simp at h
      · rw [List.mem_eraseDups, List.mem_flatMap] at h
        obtain ⟨s1, hs1, hr⟩ := h
        rw [List.mem_filterMap] at hs1
        obtain ⟨a, _, ha⟩ := hs1
        obtain ⟨as, s', hrun, hret⟩ := ih s1 hr
        exact ⟨a :: as, s', by simp [run, ha, hrun], hret⟩

/-! ### Non-vacuity: concrete runs -/

/-- An agent that reacts to nothing is killed: Close returns in stage `kill`. -/
example :
    ((run ⟨800, 1000, 1000, false, false⟩ ⟨none, none, none, 5, false⟩ (init ⟨800, 1000, 1000, false, false⟩ ⟨none, none, none, 5, false⟩)
      [.tick 800, .fire, .tick 1000, .fire, .tick 1000, .fire, .tick 5, .procExit, .recv]).map
      fun s => (s.returned, s.alive)) = some (some (.kill, 2805), false) := by
  decide

/-- An agent that exits 100 ms after its input closes: stage `stdin`. -/
example :
    ((run ⟨800, 1000, 1000, false, false⟩ ⟨none, some 100, none, 5, false⟩ (init ⟨800, 1000, 1000, false, false⟩ ⟨none, some 100, none, 5, false⟩)
      [.tick 800, .fire, .tick 100, .procExit, .recv]).map
      fun s => s.returned) = some (some (.stdin, 900)) := by
  decide

/-- A tie (exit exactly at the termination delay): both stages are possible. -/
example :
    ((outcomes ⟨800, 1000, 1000, false, false⟩ ⟨some 800, none, none, 5, false⟩ 32 (init ⟨800, 1000, 1000, false, false⟩ ⟨some 800, none, none, 5, false⟩)).map
      fun r => r.1) = [.wait, .stdin] := by
  decide

/-- With a receiver and a descendant that never lets go of standard error
(`helperExit` does not occur in this run): Close still returns, in the same
stage at the same time, the agent has been waited for, and the descendant is
still holding the pipe when it does. -/
example :
    ((run ⟨0, 1000, 1000, true, false⟩ ⟨none, some 100, none, 5, true⟩
        (init ⟨0, 1000, 1000, true, false⟩ ⟨none, some 100, none, 5, true⟩)
      [.fire, .tick 100, .procExit, .copyEnd, .recv]).map
      fun s => (s.returned, s.alive, s.helper, s.copyDone)) = some (some (.stdin, 100), false, true, true) := by
  decide

/-- A `Write` is blocked, the agent ignores everything: the first escalation
releases the writer, Close goes on to SIGTERM and SIGKILL and returns. -/
example :
    ((run ⟨0, 1000, 1000, false, true⟩ ⟨none, none, none, 5, false⟩
        (init ⟨0, 1000, 1000, false, true⟩ ⟨none, none, none, 5, false⟩)
      [.fire]).map fun s => (s.stage, s.writerBlocked)) = some (.stdin, false) ∧
    ((run ⟨0, 1000, 1000, false, true⟩ ⟨none, none, none, 5, false⟩
        (init ⟨0, 1000, 1000, false, true⟩ ⟨none, none, none, 5, false⟩)
      [.fire, .tick 1000, .fire, .tick 1000, .fire, .tick 5, .procExit, .recv]).map
      fun s => s.returned) = some (some (.kill, 2005)) := by
  decide

end Mutagen.Properties.C35
