import Mutagen.Proofs.Executability
/-!
# C18 — executability survives synchronization through an endpoint that cannot store it

Property theorems only (helper lemmas live in `Mutagen.Proofs.Executability`).
-/
namespace Mutagen.Properties.C18
open Mutagen.Model Mutagen.Proofs.Executability

/-- `propagate_rules`: for every ancestor `A`, source `S`, target `T` and every
path `q`, the scalar fields `PropagateExecutability(A, S, T)` records at `q`
are those of `T`, except that a file reached through directories of `T` gets
the executable bit named by the rules of executability.go, evaluated on what
`A` and `S` record at the same path (`execRule`: source file with the same
digest → the source's bit; else ancestor file with the same digest → the
ancestor's bit; else source a file unmodified from the ancestor file → the
source's bit; else its own bit). In particular the result has an entry at
exactly the paths of `T`, and nothing but those executable bits changes. -/
theorem propagate_rules (A S T : Option Entry) (q : Path) :
    propsAt (propagateExecutability A S T) q = (propsAt T q).map (ruleAt A S T q) := by
  cases T with
  | none => simp [propagateExecutability, propsAt, getPath_none]
  | some t => exact propsAt_propagate q t A S

/-- The rules only ever copy a bit from the source or the ancestor at the same
path, or keep the target's own. -/
theorem propagate_bit_origin (A S T : Option Entry) (q : Path) (p : Props)
    (h : propsAt (propagateExecutability A S T) q = some p) :
    ∃ t, propsAt T q = some t ∧ { p with executable := t.executable } = t ∧
      (p.executable = t.executable ∨
        (p.executable = oexec (getPath S q) ∧ (getPath S q).isSome) ∨
        (p.executable = oexec (getPath A q) ∧ (getPath A q).isSome)) := by
  rw [propagate_rules] at h
  cases ht : propsAt T q with
  | none => simp [ht] at h
  | some t =>
    refine ⟨t, rfl, ?_⟩
    simp only [ht, Option.map_some, Option.some.injEq] at h
    subst h
    unfold ruleAt
    split
    · refine ⟨by cases t; rfl, ?_⟩
      simp only [execRule]
      split
      · rename_i h1
        right; left
        refine ⟨rfl, ?_⟩
        cases hs : getPath S q <;> simp_all [fileWithDigest]
      · split
        · rename_i h2
          right; right
          refine ⟨rfl, ?_⟩
          cases ha : getPath A q <;> simp_all [fileWithDigest]
        · split
          · rename_i h3
            right; left
            refine ⟨rfl, ?_⟩
            cases hs : getPath S q <;> simp_all [sourceUnmodified]
          · left; rfl
    · exact ⟨by cases t; rfl, Or.inl rfl⟩

/-- Non-vacuity: the rules do change a bit on a concrete triple (an executable
file edited on the non-preserving side keeps the bit of the unmodified
preserving side). -/
example :
    let f (x : Bool) (d : UInt8) : Entry := .mk { kind := .file, executable := x, digest := [d] } []
    let dir (c : Entry) : Option Entry := some (.mk { kind := .directory } [("a", c)])
    propsAt (propagateExecutability (dir (f true 1)) (dir (f true 1)) (dir (f false 2))) ["a"] =
      some { kind := .file, executable := true, digest := [2] } := by
  decide

end Mutagen.Properties.C18
