import Mutagen.Proofs.Executability
import Mutagen.Proofs.ExecCycle
import Mutagen.Proofs.Phantom
import Mutagen.Model.SyncCycle
import Mutagen.Proofs.ExecHistory
import Mutagen.Proofs.ExecHistoryValid
/-!
# C18 — executability survives synchronization through an endpoint that cannot store it

Property theorems only (helper lemmas live in `Mutagen.Proofs.Executability`).
-/
namespace Mutagen.Properties.C18
open Mutagen.Model Mutagen.Proofs Mutagen.Proofs.Executability Mutagen.Proofs.ExecCycle
  Mutagen.Proofs.ReconcileLeaf Mutagen.Proofs.ReconcileShape Mutagen.Proofs.Phantom
  Mutagen.Proofs.ExecHistory Mutagen.Model.ExecHistory Mutagen.Proofs.ExecHistoryValid

/-- `propagate_rules`: for every ancestor `A`, source `S`, target `T` and every
path `q`, the scalar fields `PropagateExecutability(A, S, T)` records at `q`
are those of `T`, except that a file reached through directories of `T` gets
the executable bit named by the rules of executability.go, evaluated on what
`A` and `S` record at the same path (`execRule`: source file with the same
digest → the source's bit; else ancestor file with the same digest → the
ancestor's bit; else source a file unmodified from the ancestor file → the
source's bit; else its own bit). In particular the result has an entry at
exactly the paths of `T`, and nothing but those executable bits changes. -/
theorem propagate_rules (A S T : Option Entry) (q : Path) :
    propsAt (propagateExecutability A S T) q = (propsAt T q).map (ruleAt A S T q) := by
  cases T with
  | none => simp [propagateExecutability, propsAt, Mutagen.Proofs.Executability.getPath_none]
  | some t => exact propsAt_propagate q t A S

/-- The rules only ever copy a bit from the source or the ancestor at the same
path, or keep the target's own. -/
theorem propagate_bit_origin (A S T : Option Entry) (q : Path) (p : Props)
    (h : propsAt (propagateExecutability A S T) q = some p) :
    ∃ t, propsAt T q = some t ∧ { p with executable := t.executable } = t ∧
      (p.executable = t.executable ∨
        (p.executable = oexec (getPath S q) ∧ (getPath S q).isSome) ∨
        (p.executable = oexec (getPath A q) ∧ (getPath A q).isSome)) := by
  rw [propagate_rules] at h
  cases ht : propsAt T q with
  | none => simp [ht] at h
  | some t =>
    refine ⟨t, rfl, ?_⟩
    simp only [ht, Option.map_some, Option.some.injEq] at h
    subst h
    unfold ruleAt
    split
    · refine ⟨by cases t; rfl, ?_⟩
      simp only [execRule]
      split
      · rename_i h1
        right; left
        refine ⟨rfl, ?_⟩
        cases hs : getPath S q <;> simp_all [fileWithDigest]
      · split
        · rename_i h2
          right; right
          refine ⟨rfl, ?_⟩
          cases ha : getPath A q <;> simp_all [fileWithDigest]
        · split
          · rename_i h3
            right; left
            refine ⟨rfl, ?_⟩
            cases hs : getPath S q <;> simp_all [sourceUnmodified]
          · left; rfl
    · exact ⟨by cases t; rfl, Or.inl rfl⟩

/-- Non-vacuity: the rules do change a bit on a concrete triple (an executable
file edited on the non-preserving side keeps the bit of the unmodified
preserving side). -/
example :
    let f (x : Bool) (d : UInt8) : Entry := .mk { kind := .file, executable := x, digest := [d] } []
    let dir (c : Entry) : Option Entry := some (.mk { kind := .directory } [("a", c)])
    propsAt (propagateExecutability (dir (f true 1)) (dir (f true 1)) (dir (f false 2))) ["a"] =
      some { kind := .file, executable := true, digest := [2] } := by
  decide

/-!
## The ideal cycle

`P` is the content of the endpoint that preserves executability, `N` the
content of the one that does not, `A` the ancestor; `nAlpha` says that `N` is
alpha. `N' = PropagateExecutability(A, P, N)` is reconciled against `P`, and the
changes planned for `P` are applied to `P` exactly (`apply`). `q` is any path
at which both `P` and `N` hold a file (`pP`, `pN` are the scalar fields
recorded there) below directories. Trees are valid (`EnsureValid`).
-/

/-- `exec_cycle_exact`: in every mode and orientation, after the ideal cycle the
preserving side records at `q` either exactly what it recorded before, or the
non-preserving side's file with the bit chosen by the propagation rules. -/
theorem exec_cycle_exact (mode : Mode) (A P N : Option Entry) (nAlpha : Bool) (q : Path) (pP pN : Props)
    (hA : oensureValid true A = true) (hP : oensureValid false P = true) (hN : oensureValid false N = true)
    (hdP : dirsAbove P q = true) (hdN : dirsAbove N q = true)
    (hPq : propsAt P q = some pP) (hkP : pP.kind = .file)
    (hNq : propsAt N q = some pN) (hkN : pN.kind = .file) (P' : Option Entry)
    (happ : apply P (if nAlpha then (Reconcile A (propagateExecutability A P N) P mode).beta
                      else (Reconcile A P (propagateExecutability A P N) mode).alpha) = .ok P') :
    propsAt P' q = some pP ∨
      propsAt P' q = some { pN with executable := execRule (getPath A q) (leaf pP) pN } := by
  rcases (after_cycle mode A P N nAlpha q pP pN hA hP hN hdP hdN hPq hkP hNq hkN P' happ).cases with h | h
  · exact Or.inl h
  · exact Or.inr h.1

/-- `exec_preserved`: outside the two documented deviations
(`AlphaNonpreservingWins`: N is alpha, the mode lets alpha win, and N's content
differs from both P's and the ancestor's; `ReplicaRevertsToAncestor`:
one-way-replica, N is alpha and still holds the ancestor's content which P
modified) the preserving side still holds a file at `q` after the cycle, with
the executable bit it had before — in every mode and orientation, whatever
happens to the file's content. -/
theorem exec_preserved (mode : Mode) (A P N : Option Entry) (nAlpha : Bool) (q : Path) (pP pN : Props)
    (hA : oensureValid true A = true) (hP : oensureValid false P = true) (hN : oensureValid false N = true)
    (hdP : dirsAbove P q = true) (hdN : dirsAbove N q = true)
    (hPq : propsAt P q = some pP) (hkP : pP.kind = .file)
    (hNq : propsAt N q = some pN) (hkN : pN.kind = .file)
    (h1 : ¬ AlphaNonpreservingWins mode nAlpha (getPath A q) pP pN)
    (h2 : ¬ ReplicaRevertsToAncestor mode nAlpha (getPath A q) pP pN) (P' : Option Entry)
    (happ : apply P (if nAlpha then (Reconcile A (propagateExecutability A P N) P mode).beta
                      else (Reconcile A P (propagateExecutability A P N) mode).alpha) = .ok P') :
    ∃ p', propsAt P' q = some p' ∧ p'.kind = .file ∧ p'.executable = pP.executable := by
  have hNt := (file_at N q pN hN hNq hkN).2
  exact exec_of_after mode nAlpha (getPath A q) pP pN (propsAt P' q)
    (Valid.ovalid_getPath true q A hA) hkP hkN hNt
    (after_cycle mode A P N nAlpha q pP pN hA hP hN hdP hdN hPq hkP hNq hkN P' happ) h1 h2

/-- `exec_preserved_safe_modes`: in two-way-safe and one-way-safe, and in every
mode when the preserving side is alpha, the bit is preserved unconditionally. -/
theorem exec_preserved_safe_modes (mode : Mode) (A P N : Option Entry) (nAlpha : Bool) (q : Path) (pP pN : Props)
    (hA : oensureValid true A = true) (hP : oensureValid false P = true) (hN : oensureValid false N = true)
    (hdP : dirsAbove P q = true) (hdN : dirsAbove N q = true)
    (hPq : propsAt P q = some pP) (hkP : pP.kind = .file)
    (hNq : propsAt N q = some pN) (hkN : pN.kind = .file)
    (hsafe : mode = .twoWaySafe ∨ mode = .oneWaySafe ∨ nAlpha = false) (P' : Option Entry)
    (happ : apply P (if nAlpha then (Reconcile A (propagateExecutability A P N) P mode).beta
                      else (Reconcile A P (propagateExecutability A P N) mode).alpha) = .ok P') :
    ∃ p', propsAt P' q = some p' ∧ p'.kind = .file ∧ p'.executable = pP.executable := by
  refine exec_preserved mode A P N nAlpha q pP pN hA hP hN hdP hdN hPq hkP hNq hkN ?_ ?_ P' happ
  · rintro ⟨h, hm, _⟩
    rcases hsafe with rfl | rfl | rfl <;> simp_all
  · rintro ⟨h, hm, _⟩
    rcases hsafe with rfl | rfl | rfl <;> simp_all

/-- `edit_on_N_keeps_exec`: if the file at `q` is unmodified on the preserving
side since the last synchronization (the ancestor records exactly P's file),
then — whatever content the non-preserving side now holds, in every mode and
orientation — P keeps its executable bit. (Editing a script on the side that
cannot store the bit never costs the bit.) -/
theorem edit_on_N_keeps_exec (mode : Mode) (A P N : Option Entry) (nAlpha : Bool) (q : Path) (pP pN : Props)
    (hA : oensureValid true A = true) (hP : oensureValid false P = true) (hN : oensureValid false N = true)
    (hdP : dirsAbove P q = true) (hdN : dirsAbove N q = true)
    (hPq : propsAt P q = some pP) (hkP : pP.kind = .file)
    (hNq : propsAt N q = some pN) (hkN : pN.kind = .file)
    (hunmod : propsAt A q = some pP) (P' : Option Entry)
    (happ : apply P (if nAlpha then (Reconcile A (propagateExecutability A P N) P mode).beta
                      else (Reconcile A P (propagateExecutability A P N) mode).alpha) = .ok P') :
    ∃ p', propsAt P' q = some p' ∧ p'.kind = .file ∧ p'.executable = pP.executable := by
  rcases exec_cycle_exact mode A P N nAlpha q pP pN hA hP hN hdP hdN hPq hkP hNq hkN P' happ with h | h
  · exact ⟨pP, h, hkP, rfl⟩
  · refine ⟨_, h, hkN, ?_⟩
    show execRule (getPath A q) (leaf pP) pN = pP.executable
    obtain ⟨e, he, hpe⟩ : ∃ e, getPath A q = some e ∧ e.props = pP := by
      simp only [propsAt] at hunmod
      cases hg : getPath A q with
      | none => simp [hg] at hunmod
      | some e => exact ⟨e, rfl, by simpa [hg] using hunmod⟩
    obtain ⟨pe, cs⟩ := e
    simp only [Entry.props] at hpe
    have hpe' := hpe.symm
    subst hpe'
    unfold execRule
    by_cases r1 : fileWithDigest (leaf pP) pN.digest = true
    · rw [if_pos r1]; rfl
    · rw [if_neg r1]
      have r2 : ¬ fileWithDigest (getPath A q) pN.digest = true := by
        intro h2; apply r1
        simp only [he, fileWithDigest, Entry.kind, Entry.props, Bool.and_eq_true, beq_iff_eq] at h2
        simp [fileWithDigest, leaf, Entry.kind, Entry.props, hkP, h2.2]
      have r3 : sourceUnmodified (getPath A q) (leaf pP) = true := by
        simp [he, sourceUnmodified, leaf, Entry.kind, Entry.props, hkP]
      rw [if_neg r2, if_pos r3]; rfl

/-- `exec_kept_when_content_kept`: whenever the content of P's file at `q` is
not replaced by different content in this cycle (the digest recorded afterwards
is the one recorded before), its executable bit is not touched either — in
every mode and orientation, with no exception. -/
theorem exec_kept_when_content_kept (mode : Mode) (A P N : Option Entry) (nAlpha : Bool) (q : Path) (pP pN : Props)
    (hA : oensureValid true A = true) (hP : oensureValid false P = true) (hN : oensureValid false N = true)
    (hdP : dirsAbove P q = true) (hdN : dirsAbove N q = true)
    (hPq : propsAt P q = some pP) (hkP : pP.kind = .file)
    (hNq : propsAt N q = some pN) (hkN : pN.kind = .file) (P' : Option Entry)
    (happ : apply P (if nAlpha then (Reconcile A (propagateExecutability A P N) P mode).beta
                      else (Reconcile A P (propagateExecutability A P N) mode).alpha) = .ok P')
    (p' : Props) (hp' : propsAt P' q = some p') (hd : p'.digest = pP.digest) :
    p'.kind = .file ∧ p'.executable = pP.executable := by
  rcases exec_cycle_exact mode A P N nAlpha q pP pN hA hP hN hdP hdN hPq hkP hNq hkN P' happ with h | h
  · rw [h] at hp'; injection hp' with hp'; subst hp'; exact ⟨hkP, rfl⟩
  · rw [h] at hp'; injection hp' with hp'; subst hp'
    refine ⟨hkN, ?_⟩
    show execRule (getPath A q) (leaf pP) pN = pP.executable
    have r1 : fileWithDigest (leaf pP) pN.digest = true := by
      simp only at hd
      simp [fileWithDigest, leaf, Entry.kind, Entry.props, hkP, hd]
    unfold execRule
    rw [if_pos r1]; rfl

/-!
## Docker-style ignores: phantom directories

With Docker-style ignore syntax a scan reports an ignored directory that holds
unignored content as a *phantom* directory. `synchronize` first reifies phantom
directories (`ReifyPhantomDirectories`), then propagates executability, then
reconciles — `cycleFromScans` models exactly this order. Executability
propagation only descends through entries of kind `Directory`, so the order
matters: the theorems below are about the reified contents.
-/

/-- The model runs the cycle in the order of the code: reify, then everything
else (propagation, safety checks, reconciliation) on the reified contents. -/
theorem cycle_reifies_first (mode : Mode) (portable : Bool) (eps : Endpoints) (A : Option Entry) (α β : Scan) :
    cycleFromScans mode portable true eps A α β =
      cycle mode portable eps A { α with content := (reify A α.content β.content).alpha }
        { β with content := (reify A α.content β.content).beta } := rfl

/-- `exec_preserved_docker`: `exec_preserved` for files below phantom
directories. `P` and `N` are the *scanned* contents; `q` is a path at which both
hold a file below directories or phantom directories. After reification (in the
orientation of the session), propagation onto the reified `N`, reconciliation
and exact application, the preserving side still holds a file at `q` with the
executable bit it had — outside the two documented deviations, in every mode. -/
theorem exec_preserved_docker (mode : Mode) (A P N : Option Entry) (nAlpha : Bool) (q : Path) (pP pN : Props)
    (hA : oensureValid true A = true) (hP : oensureValid false P = true) (hN : oensureValid false N = true)
    (hdP : dirKindsAbove P q = true) (hdN : dirKindsAbove N q = true)
    (hPq : propsAt P q = some pP) (hkP : pP.kind = .file)
    (hNq : propsAt N q = some pN) (hkN : pN.kind = .file)
    (h1 : ¬ AlphaNonpreservingWins mode nAlpha (getPath A q) pP pN)
    (h2 : ¬ ReplicaRevertsToAncestor mode nAlpha (getPath A q) pP pN)
    (Pr Nr : Option Entry)
    (hr : (Pr, Nr) = if nAlpha then ((reify A N P).beta, (reify A N P).alpha)
                     else ((reify A P N).alpha, (reify A P N).beta))
    (P' : Option Entry)
    (happ : apply Pr (if nAlpha then (Reconcile A (propagateExecutability A Pr Nr) Pr mode).beta
                       else (Reconcile A Pr (propagateExecutability A Pr Nr) mode).alpha) = .ok P') :
    ∃ p', propsAt P' q = some p' ∧ p'.kind = .file ∧ p'.executable = pP.executable := by
  have hfP : isFileAt P q = true := by
    simp only [propsAt] at hPq
    cases hg : getPath P q with
    | none => simp [hg] at hPq
    | some e =>
      simp only [hg, Option.map_some, Option.some.injEq] at hPq
      simp [isFileAt, hg, isKind, Entry.kind, hPq, hkP]
  have hfN : isFileAt N q = true := by
    simp only [propsAt] at hNq
    cases hg : getPath N q with
    | none => simp [hg] at hNq
    | some e =>
      simp only [hg, Option.map_some, Option.some.injEq] at hNq
      simp [isFileAt, hg, isKind, Entry.kind, hNq, hkN]
  cases nAlpha with
  | true =>
    simp only [if_true, Prod.mk.injEq] at hr
    obtain ⟨rfl, rfl⟩ := hr
    obtain ⟨_, hdn, hdp, hgn, hgp⟩ := reify_chain q A N P hdN hdP hfN hfP
    obtain ⟨hvn, hvp⟩ := reify_valid A N P hN hP
    exact exec_preserved mode A _ _ true q pP pN hA hvp hvn hdp hdn
      (by simp only [propsAt, hgp]; exact hPq) hkP (by simp only [propsAt, hgn]; exact hNq) hkN h1 h2 P' happ
  | false =>
    simp only [Bool.false_eq_true, if_false, Prod.mk.injEq] at hr
    obtain ⟨rfl, rfl⟩ := hr
    obtain ⟨_, hdp, hdn, hgp, hgn⟩ := reify_chain q A P N hdP hdN hfP hfN
    obtain ⟨hvp, hvn⟩ := reify_valid A P N hP hN
    exact exec_preserved mode A _ _ false q pP pN hA hvp hvn hdp hdn
      (by simp only [propsAt, hgp]; exact hPq) hkP (by simp only [propsAt, hgn]; exact hNq) hkN h1 h2 P' happ

/-- Reification turns the phantom directories above a file that exists on both
sides into directories and leaves the files alone, so propagation reaches them. -/
theorem reified_chain_is_directories (A α β : Option Entry) (q : Path)
    (hdα : dirKindsAbove α q = true) (hdβ : dirKindsAbove β q = true)
    (hα : isFileAt α q = true) (hβ : isFileAt β q = true) :
    dirsAbove (reify A α β).alpha q = true ∧ dirsAbove (reify A α β).beta q = true ∧
      getPath (reify A α β).alpha q = getPath α q ∧ getPath (reify A α β).beta q = getPath β q :=
  (reify_chain q A α β hdα hdβ hα hβ).2

/-- The negation of the full-strength reading inside `AlphaNonpreservingWins`:
for *every* pair of files with different digests at the root, no ancestor,
the non-preserving side as alpha and a mode in which alpha wins, the
preserving side's file is replaced by alpha's together with alpha's
(non-preserved) bit. -/
theorem alpha_nonpreserving_wins_loses_bit (mode : Mode) (pP pN : Props)
    (hkP : pP.kind = .file) (hkN : pN.kind = .file) (hd : pN.digest ≠ pP.digest)
    (hm : mode = .twoWayResolved ∨ mode = .oneWayReplica) :
    apply (leaf pP) (Reconcile none (propagateExecutability none (leaf pP) (leaf pN)) (leaf pP) mode).beta =
      .ok (leaf pN) := by
  have hN' : propagateExecutability none (leaf pP) (leaf pN) = leaf pN := by
    have r1 : fileWithDigest (leaf pP) pN.digest = false := by
      simp [fileWithDigest, leaf, Entry.kind, Entry.props, hkP, Ne.symm hd]
    have hx : execRule none (leaf pP) pN = pN.executable := by
      unfold execRule
      rw [if_neg (by simp [r1]), if_neg (by simp [fileWithDigest]), if_neg (by simp [sourceUnmodified, leaf])]
    rw [propagate_leaf none (leaf pP) pN hkN, hx]
  have hne : shallowEq (leaf pN) (leaf pP) = false := by
    cases h : shallowEq (leaf pN) (leaf pP) with
    | false => rfl
    | true =>
      exfalso; apply hd
      simp only [shallowEq, leaf, Entry.props, beq_iff_eq] at h
      rw [h]
  have hbeta := reconcile_leaf_beta_overwritten mode [] none pN pP hkN hkP (fun _ => rfl) hne
    (by
      rcases hm with rfl | rfl
      · exact Or.inr ⟨rfl, by simp [shallowEq, leaf], by simp [shallowEq, leaf]⟩
      · exact Or.inl rfl)
  rw [hN', Reconcile, hbeta]
  simp [apply, applyChange]

/-- `replica_reverts_to_ancestor_bit`: the negation inside
`ReplicaRevertsToAncestor`: one-way-replica, N is alpha and holds the
ancestor's file, P modified content and bit: P gets the ancestor's content
*and* the ancestor's bit back. -/
theorem replica_reverts_to_ancestor_bit (pA pP pN : Props)
    (hkA : pA.kind = .file) (hkP : pP.kind = .file) (hkN : pN.kind = .file)
    (hAN : pN = { pA with executable := pN.executable }) (hd : pN.digest ≠ pP.digest) :
    apply (leaf pP) (Reconcile (leaf pA) (propagateExecutability (leaf pA) (leaf pP) (leaf pN)) (leaf pP)
      .oneWayReplica).beta = .ok (leaf pA) := by
  have hdA : pA.digest = pN.digest := by rw [hAN]
  have hN' : propagateExecutability (leaf pA) (leaf pP) (leaf pN) = leaf pA := by
    have r1 : fileWithDigest (leaf pP) pN.digest = false := by
      simp [fileWithDigest, leaf, Entry.kind, Entry.props, hkP, Ne.symm hd]
    have r2 : fileWithDigest (leaf pA) pN.digest = true := by
      simp [fileWithDigest, leaf, Entry.kind, Entry.props, hkA, hdA]
    have hx : execRule (leaf pA) (leaf pP) pN = pA.executable := by
      unfold execRule
      rw [if_neg (by simp [r1]), if_pos r2]; rfl
    have : ({ pN with executable := pA.executable } : Props) = pA := by
      rw [hAN]
    rw [propagate_leaf (leaf pA) (leaf pP) pN hkN, hx, this]
  have hne : shallowEq (leaf pA) (leaf pP) = false := by
    cases h : shallowEq (leaf pA) (leaf pP) with
    | false => rfl
    | true =>
      exfalso; apply hd
      simp only [shallowEq, leaf, Entry.props, beq_iff_eq] at h
      rw [← hdA, h]
  have hbeta := reconcile_leaf_beta_overwritten .oneWayReplica [] (leaf pA) pA pP hkA hkP (fun _ => rfl) hne
    (Or.inl rfl)
  rw [hN', Reconcile, hbeta]
  simp [apply, applyChange]

/-- The concrete witness recorded in DESIGN.md §8: `A = nil`, `P = file₁`
(executable), `N = file₂`, alpha = N, two-way-resolved: P becomes `file₂`,
non-executable. -/
example :
    apply (leaf { kind := .file, executable := true, digest := [1] })
      (Reconcile none (propagateExecutability none (leaf { kind := .file, executable := true, digest := [1] })
        (leaf { kind := .file, digest := [2] })) (leaf { kind := .file, executable := true, digest := [1] })
        .twoWayResolved).beta = .ok (leaf { kind := .file, executable := false, digest := [2] }) :=
  alpha_nonpreserving_wins_loses_bit .twoWayResolved _ _ rfl rfl (by decide) (Or.inl rfl)

/-- The second witness: `A = file₁`, `N = file₁`, `P = file₂` (executable),
alpha = N, one-way-replica: P becomes `file₁`, non-executable. -/
example :
    apply (leaf { kind := .file, executable := true, digest := [2] })
      (Reconcile (leaf { kind := .file, digest := [1] })
        (propagateExecutability (leaf { kind := .file, digest := [1] })
          (leaf { kind := .file, executable := true, digest := [2] }) (leaf { kind := .file, digest := [1] }))
        (leaf { kind := .file, executable := true, digest := [2] }) .oneWayReplica).beta =
      .ok (leaf { kind := .file, executable := false, digest := [1] }) :=
  replica_reverts_to_ancestor_bit _ _ _ rfl rfl rfl rfl (by decide)

/-!
## Histories

States `(ancestor, P, N)`; steps: arbitrary edits on N, chmod of a file on P,
new content for a file on P, and a fully applied cycle (reify with Docker-style
ignores, propagate, reconcile, apply both plans, ancestor update with ideal
results) — `Model/ExecHistory`.
-/

/-- A cycle never changes the bit: one fully applied cycle (reify, propagate,
reconcile, apply) from a valid state in the situation of the property leaves
P's file at `q` a file with the same executable bit. -/
theorem cycle_keeps_bit (mode : Mode) (nAlpha docker : Bool) (q : Path) (s : State) (b : Bool)
    (hv : ValidState s) (hok : CycleOK mode nAlpha docker q s) (hb : FileBit s.P q b) :
    FileBit (ExecHistory.cycleStep mode nAlpha docker s).P q b := by
  obtain ⟨pP, hPq, hkP, hbP⟩ := hb
  obtain ⟨pN, hNq, hkN⟩ := hok.fileN
  obtain ⟨h1, h2⟩ := hok.outside pP pN hPq hNq
  obtain ⟨hA, hP, hN⟩ := hv
  cases docker with
  | false =>
    have hcP := hok.chainP
    have hcN := hok.chainN
    simp only [Bool.false_eq_true, if_false] at hcP hcN
    cases nAlpha with
    | true =>
      simp only [ExecHistory.cycleStep, planOf, reified, Bool.false_eq_true, if_false, if_true]
      cases ha : apply s.P (Reconcile s.anc (propagateExecutability s.anc s.P s.N) s.P mode).beta with
      | error _ => exact ⟨pP, hPq, hkP, hbP⟩
      | ok P' =>
        obtain ⟨p', h', hk', hx'⟩ := exec_preserved mode s.anc s.P s.N true q pP pN hA hP hN hcP hcN hPq hkP hNq hkN h1 h2 P'
          (by simpa using ha)
        exact ⟨p', h', hk', hx'.trans hbP⟩
    | false =>
      simp only [ExecHistory.cycleStep, planOf, reified, Bool.false_eq_true, if_false]
      cases ha : apply s.P (Reconcile s.anc s.P (propagateExecutability s.anc s.P s.N) mode).alpha with
      | error _ => exact ⟨pP, hPq, hkP, hbP⟩
      | ok P' =>
        obtain ⟨p', h', hk', hx'⟩ := exec_preserved mode s.anc s.P s.N false q pP pN hA hP hN hcP hcN hPq hkP hNq hkN h1 h2 P'
          (by simpa using ha)
        exact ⟨p', h', hk', hx'.trans hbP⟩
  | true =>
    have hcP := hok.chainP
    have hcN := hok.chainN
    simp only [if_true] at hcP hcN
    have hfP : isFileAt s.P q = true := by
      simp only [propsAt] at hPq
      cases hg : getPath s.P q with
      | none => simp [hg] at hPq
      | some e =>
        simp only [hg, Option.map_some, Option.some.injEq] at hPq
        simp [isFileAt, hg, isKind, Entry.kind, hPq, hkP]
    have hfN : isFileAt s.N q = true := by
      simp only [propsAt] at hNq
      cases hg : getPath s.N q with
      | none => simp [hg] at hNq
      | some e =>
        simp only [hg, Option.map_some, Option.some.injEq] at hNq
        simp [isFileAt, hg, isKind, Entry.kind, hNq, hkN]
    cases nAlpha with
    | true =>
      simp only [ExecHistory.cycleStep, planOf, reified, if_true]
      cases ha : apply (reify s.anc s.N s.P).beta (Reconcile s.anc
          (propagateExecutability s.anc (reify s.anc s.N s.P).beta (reify s.anc s.N s.P).alpha)
          (reify s.anc s.N s.P).beta mode).beta with
      | error _ =>
        obtain ⟨_, _, _, _, hgp⟩ := reify_chain q s.anc s.N s.P hcN hcP hfN hfP
        exact ⟨pP, by simp only [ExecHistory.applied, propsAt, hgp]; exact hPq, hkP, hbP⟩
      | ok P' =>
        obtain ⟨p', h', hk', hx'⟩ := exec_preserved_docker mode s.anc s.P s.N true q pP pN hA hP hN hcP hcN hPq hkP
          hNq hkN h1 h2 _ _ rfl P' (by simpa using ha)
        exact ⟨p', h', hk', hx'.trans hbP⟩
    | false =>
      simp only [ExecHistory.cycleStep, planOf, reified, if_true, Bool.false_eq_true, if_false]
      cases ha : apply (reify s.anc s.P s.N).alpha (Reconcile s.anc (reify s.anc s.P s.N).alpha
          (propagateExecutability s.anc (reify s.anc s.P s.N).alpha (reify s.anc s.P s.N).beta) mode).alpha with
      | error _ =>
        obtain ⟨_, _, _, hgp, _⟩ := reify_chain q s.anc s.P s.N hcP hcN hfP hfN
        exact ⟨pP, by simp only [ExecHistory.applied, propsAt, hgp]; exact hPq, hkP, hbP⟩
      | ok P' =>
        obtain ⟨p', h', hk', hx'⟩ := exec_preserved_docker mode s.anc s.P s.N false q pP pN hA hP hN hcP hcN hPq hkP
          hNq hkN h1 h2 _ _ rfl P' (by simpa using ha)
        exact ⟨p', h', hk', hx'.trans hbP⟩

/-- What a user step does to the bit of P's file at `q`. -/
theorem edit_sets_user_bit (mode : Mode) (nAlpha docker : Bool) (q : Path) (s : State) (b : Bool) (x : Step)
    (hx : x ≠ .cycle) (hb : FileBit s.P q b) :
    FileBit (step mode nAlpha docker s x).P q (userBit q b [x]) := by
  obtain ⟨p, hp, hk, he⟩ := hb
  cases x with
  | cycle => exact absurd rfl hx
  | editN t => exact ⟨p, hp, hk, he⟩
  | chmodP q' =>
    by_cases hq : q' = q
    · subst hq
      refine ⟨_, setFile_self s.P q' _ p hp hk, hk, ?_⟩
      simp [userBit, he]
    · refine ⟨p, ?_, hk, ?_⟩
      · simp only [step]; rw [setFile_other s.P q' q _ hq]; exact hp
      · simp [userBit, hq, he]
  | editP q' d =>
    by_cases hq : q' = q
    · subst hq
      exact ⟨_, setFile_self s.P q' _ p hp hk, hk, by simp [userBit, he]⟩
    · refine ⟨p, ?_, hk, by simp [userBit, he]⟩
      simp only [step]; rw [setFile_other s.P q' q _ hq]; exact hp

theorem userBit_cons (q : Path) (b : Bool) (x : Step) (rest : List Step) :
    userBit q b (x :: rest) = userBit q (userBit q b [x]) rest := by
  cases x <;> simp [userBit]

/-- `exec_history`: over every history of edits on N, chmods on P, content
edits on P and fully applied cycles — in every mode and orientation, with or
without Docker-style ignores — if at every moment a cycle runs the state is
valid and in the situation of the property (`CycleOK`: the file at `q` exists
on both sides below directories, outside the two documented deviations), then
at the end P's file at `q` carries exactly the bit the user last set on P: the
initial bit flipped by the `chmodP q` steps. No cycle ever changes it, however
often the content was edited on N in between. -/
theorem exec_history (mode : Mode) (nAlpha docker : Bool) (q : Path) (steps : List Step) :
    ∀ (s : State) (b : Bool), FileBit s.P q b →
    (∀ pre, pre ++ [Step.cycle] <+: steps →
      ValidState (run mode nAlpha docker s pre) ∧ CycleOK mode nAlpha docker q (run mode nAlpha docker s pre)) →
    FileBit (run mode nAlpha docker s steps).P q (userBit q b steps) := by
  induction steps with
  | nil => intro s b hb _; exact hb
  | cons x rest ih =>
    intro s b hb hgood
    rw [userBit_cons]
    have hnext : FileBit (step mode nAlpha docker s x).P q (userBit q b [x]) := by
      by_cases hx : x = .cycle
      · subst hx
        obtain ⟨hv, hok⟩ := hgood [] (by simp)
        simpa [userBit, step] using cycle_keeps_bit mode nAlpha docker q s b hv hok hb
      · exact edit_sets_user_bit mode nAlpha docker q s b x hx hb
    have := ih (step mode nAlpha docker s x) (userBit q b [x]) hnext (by
      intro pre hpre
      have := hgood (x :: pre) (by simpa using hpre)
      simpa [run] using this)
    simpa [run] using this

/-- `exec_history` with validity discharged from the explicit hypothesis
`CyclesPreserveValid` (a fully applied cycle maps valid states to valid states —
plan application preserves `EnsureValid`, the subject of C05/C07, *assumed* here,
not proved): from a valid initial state, with valid user edits (`StepValid`: N is
replaced by valid content, new file content has a non-empty digest), the bit of
P's file at `q` is the one the user last set, whatever the history. -/
theorem exec_history_of_cycles_preserve_valid (mode : Mode) (nAlpha docker : Bool) (q : Path)
    (hc : CyclesPreserveValid mode nAlpha docker) (steps : List Step) (s : State) (b : Bool)
    (hs : ValidState s) (hsteps : ∀ x ∈ steps, StepValid x) (hb : FileBit s.P q b)
    (hok : ∀ pre, pre ++ [Step.cycle] <+: steps → CycleOK mode nAlpha docker q (run mode nAlpha docker s pre)) :
    FileBit (run mode nAlpha docker s steps).P q (userBit q b steps) :=
  exec_history mode nAlpha docker q steps s b hb fun pre hpre =>
    ⟨run_valid mode nAlpha docker hc steps s hs hsteps pre ((List.prefix_append pre [Step.cycle]).trans hpre),
      hok pre hpre⟩

/-- `cycles_preserve_valid`: the hypothesis `CyclesPreserveValid` is a theorem
for the invariant `HInv` (valid synchronizable ancestor; valid endpoint contents
that are genuine maps; phantom-free with Mutagen-style ignores): a fully applied
cycle — reify, propagate, reconcile, apply both plans exactly (N's plan to the
un-propagated content that is on N's disk), ancestor update with ideal results
— maps `HInv` states to `HInv` states, in every mode and orientation. -/
theorem cycles_preserve_valid (mode : Mode) (nAlpha docker : Bool) (s : State) (h : HInv docker s) :
    HInv docker (ExecHistory.cycleStep mode nAlpha docker s) :=
  cycle_inv mode nAlpha docker s h

/-- `exec_history_unconditional`: the multi-cycle statement without any
assumption about validity preservation. From a state satisfying `HInv`, over
every history of valid user steps (`StepOK`: N replaced by valid content, new
file content with a non-empty digest, any chmod) and fully applied cycles, in
every mode and orientation, with or without Docker-style ignores: if at every
moment a cycle runs the file at `q` exists on both sides below directories
(`CycleOK`, outside the two documented deviations), then P's file at `q` ends
with exactly the bit the user last set on P. No cycle ever changes it, however
often its content was edited on N in between. -/
theorem exec_history_unconditional (mode : Mode) (nAlpha docker : Bool) (q : Path) (steps : List Step)
    (s : State) (b : Bool) (hs : HInv docker s) (hsteps : ∀ x ∈ steps, StepOK docker x)
    (hb : FileBit s.P q b)
    (hok : ∀ pre, pre ++ [Step.cycle] <+: steps → CycleOK mode nAlpha docker q (run mode nAlpha docker s pre)) :
    FileBit (run mode nAlpha docker s steps).P q (userBit q b steps) :=
  exec_history mode nAlpha docker q steps s b hb fun pre hpre =>
    ⟨inv_validState (run_inv mode nAlpha docker steps s hs hsteps pre
        ((List.prefix_append pre [Step.cycle]).trans hpre)), hok pre hpre⟩

/-- The user's bit is a function of the chmods on P only: edits on N, edits on
P and cycles do not enter it. -/
example : userBit ["a"] true [.editN none, .cycle, .chmodP ["a"], .editP ["a"] [7], .cycle, .chmodP ["b"], .cycle] = false :=
  rfl

end Mutagen.Properties.C18
