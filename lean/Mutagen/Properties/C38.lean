import Mutagen.Proofs.URLRoundTrip
/-!
# C38 — endpoint URLs round-trip through their text form

Property theorems over `Mutagen.Model.URL` (the model of pkg/url with the
repairs of fixes/C36.patch and fixes/C38.patch); helper lemmas live in
`Mutagen.Proofs.URL*`.

The platform is POSIX (`runtime.GOOS != "windows"`, `filepath.IsAbs` = leading
slash); `filesystem.Normalize` and the process environment are arbitrary
functions, of which only `NormSpec` is assumed: normalized paths are absolute
and already normal (tested on every run by the C38 harness).
-/
namespace Mutagen.Properties.C38
open Mutagen.Model.URL Mutagen.Proofs.URL

/-- **Round trip.** Whatever `Parse` accepts — any text, either kind, either
position — is a valid URL, `Format` is defined on it, and parsing the formatted
text (same kind, same position, same environment) gives the same URL back. -/
theorem parse_format_parse (extension : Bool) (normalize lookupEnv : Str → Option Str)
    (hN : NormSpec (posix extension normalize lookupEnv))
    (s : Str) (kind : Kind) (first : Bool) (u : URL)
    (h : parse (posix extension normalize lookupEnv) s kind first = .ok u) :
    ensureValid (posix extension normalize lookupEnv) u = .ok () ∧
    ∃ f, format u [] = some f ∧ parse (posix extension normalize lookupEnv) f kind first = .ok u := by
  unfold parse at h
  by_cases hk : kind = .unsupported
  · simp [hk] at h
  · rw [if_neg hk] at h
    by_cases hs : s = []
    · simp [hs] at h
    · rw [if_neg hs] at h
      by_cases hd : isDockerURL s = true
      · rw [if_pos hd] at h
        exact docker_round_trip _ hk h
      · rw [if_neg hd] at h
        have hd' : isDockerURL s = false := by simpa using hd
        by_cases hc : isSCPSSHURL (posix extension normalize lookupEnv) s kind = true
        · rw [if_pos hc] at h
          obtain ⟨hv, hr⟩ := ssh_round_trip (posix extension normalize lookupEnv) rfl first hk hd' hc h
          refine ⟨hv, formatSSH u, ?_, hr⟩
          obtain ⟨user, host, raw2, _, _, ht⟩ := parseSCPSSH_ok h
          obtain ⟨_, port, path, _, _, hu⟩ := sshTail_ok ht
          subst hu
          rfl
        · rw [if_neg hc] at h
          exact local_round_trip extension normalize lookupEnv hN hk hs hd' (by simpa using hc) h

/-- Every URL produced by parsing is valid (first half of the statement on its own). -/
theorem parse_valid (extension : Bool) (normalize lookupEnv : Str → Option Str)
    (hN : NormSpec (posix extension normalize lookupEnv))
    (s : Str) (kind : Kind) (first : Bool) (u : URL)
    (h : parse (posix extension normalize lookupEnv) s kind first = .ok u) :
    ensureValid (posix extension normalize lookupEnv) u = .ok () :=
  (parse_format_parse extension normalize lookupEnv hN s kind first u h).1

/-! ## Non-vacuity: the hypotheses are satisfiable, on the inputs that used to fail -/

/-- The example platform (nothing normalizes, empty environment) satisfies the hypothesis on `Normalize`. -/
theorem exampleP_spec : NormSpec exampleP := by
  intro s n h; simp [exampleP, posix] at h

/-- `host:0:123:foo` (the family of DESIGN §9) parses to port 0 and path `123:foo`… -/
example : parse exampleP "host:0:123:foo".toList .synchronization true = .ok (sshExample "host" 0 "123:foo") := by
  decide

/-- …and the repaired formatter keeps the explicit zero port, so that the text parses back
(`parse_format_parse` applies: its hypothesis holds for this input). -/
example : format (sshExample "host" 0 "123:foo") [] = some "host:0:123:foo".toList := by
  show some (formatSSH (sshExample "host" 0 "123:foo")) = _
  unfold formatSSH
  have hz : zeroPortRequired (target (sshExample "host" 0 "123:foo")) (sshExample "host" 0 "123:foo").path = true := by
    decide
  have hp : natToDec (sshExample "host" 0 "123:foo").port = ['0'] := natToDec_zero
  rw [hz, hp]
  decide

/-- `docker:0://x` is an SSH URL (host `docker`); without the explicit port its text would be a Docker URL. -/
example : parse exampleP "docker:0://x".toList .synchronization true = .ok (sshExample "docker" 0 "//x") := by
  decide

example : zeroPortRequired (target (sshExample "docker" 0 "//x")) (sshExample "docker" 0 "//x").path = true := by
  decide

/-- A Docker URL with a user and a Windows path behind `~`. -/
example : parse exampleP "docker://u@c/~C:/x".toList .synchronization true =
    .ok { kind := .synchronization, protocol := .docker, user := "u".toList, host := "c".toList, port := 0,
          path := "C:/x".toList, environment := [], parameters := [] } := by
  decide

/-- The repaired parser rejects an empty Docker user name (`docker://@a@b/p` used to
format as `docker://a@b/p`, a different URL). -/
example : parse exampleP "docker://@a@b/p".toList .synchronization true = .error .emptyUsername := by decide

/-- Option-like components are rejected by the parser (C36 repair). -/
example : parse exampleP "-oProxyCommand=x:path".toList .synchronization true = .error .optionLike := by decide

end Mutagen.Properties.C38
