import Mutagen.Proofs.Config
/-!
# C37 — accepted session configurations are valid for every endpoint

Property theorems over `Mutagen.Model.Config` (the model of
pkg/synchronization/configuration.go and of session- and endpoint-level
validation, with the repair of fixes/C37.patch); helper lemmas live in
`Mutagen.Proofs.Config`. Field values are unbounded; `B` is the build's
algorithm support (arbitrary).
-/
namespace Mutagen.Properties.C37
open Mutagen.Model.Config Mutagen.Proofs.Config Mutagen.Facts

/-- **Accepted ⇒ valid for every endpoint.** Whatever session creation / loading
accepts as (session-wide, alpha-specific, beta-specific) configuration, the
validation performed for each endpoint accepts for the merged configuration
that the endpoint receives. -/
theorem accepted_implies_endpoint_valid (B : Build) (c ca cb : Configuration)
    (h : sessionAccepts B c ca cb = .ok ()) :
    endpointAccepts B (merge c ca) = .ok () ∧ endpointAccepts B (merge c cb) = .ok () := by
  obtain ⟨_, _, _, ha, hb⟩ := (sessionAccepts_ok_iff B c ca cb).mp h
  exact ⟨ha, hb⟩

/-- **What the repair adds, exactly.** Given the three checks the code always
made (each configuration valid on its own), the merged configurations are valid
iff no endpoint-specific default file mode has executable bits while the
session's effective permissions mode is portable. So the repaired session-level
validation rejects nothing else, and nothing less would do. -/
theorem acceptance_characterized (B : Build) (c ca cb : Configuration) :
    sessionAccepts B c ca cb = .ok () ↔
      sessionAcceptsOriginal B c ca cb = .ok () ∧
      (ca.defaultFileMode = 0 ∨ effectivePermissionsMode false c ≠ cfgPermPortable ∨
        anyExecutableBitSet ca.defaultFileMode = false) ∧
      (cb.defaultFileMode = 0 ∨ effectivePermissionsMode false c ≠ cfgPermPortable ∨
        anyExecutableBitSet cb.defaultFileMode = false) := by
  rw [sessionAccepts_ok_iff, sessionAcceptsOriginal_ok_iff]
  constructor
  · rintro ⟨h1, h2, h3, h4, h5⟩
    exact ⟨⟨h1, h2, h3⟩, (merged_valid_iff B c ca h1 h2).mp h4, (merged_valid_iff B c cb h1 h3).mp h5⟩
  · rintro ⟨⟨h1, h2, h3⟩, h4, h5⟩
    exact ⟨h1, h2, h3, (merged_valid_iff B c ca h1 h2).mpr h4, (merged_valid_iff B c cb h1 h3).mpr h5⟩

/-- The version's default file mode (used when none is configured) has no executable bits. -/
theorem version_default_file_mode_not_executable : anyExecutableBitSet versionDefaultFileMode = false := by
  decide

/-- **No executable bits under portable permissions.** For a configuration that
endpoint validation accepts, the effective default file mode computed by the
endpoint has no executable bits whenever its effective permissions mode is
portable. -/
theorem endpoint_portable_no_exec (B : Build) (m : Configuration) (h : endpointAccepts B m = .ok ())
    (hp : endpointPermissionsMode m = cfgPermPortable) :
    anyExecutableBitSet (endpointFileMode m) = false := by
  have v := (ensureValid_session_iff B m).mp h
  unfold endpointFileMode
  by_cases h0 : m.defaultFileMode = 0
  · simp only [h0, if_true]; exact version_default_file_mode_not_executable
  · simp only [h0, if_false]
    rcases v.fileExec with h1 | h1 | h1
    · exact absurd h1 h0
    · exact absurd hp h1
    · exact h1

/-- …in particular for both endpoints of every accepted session. -/
theorem accepted_portable_no_exec (B : Build) (c ca cb : Configuration) (h : sessionAccepts B c ca cb = .ok ()) :
    (endpointPermissionsMode (merge c ca) = cfgPermPortable → anyExecutableBitSet (endpointFileMode (merge c ca)) = false) ∧
    (endpointPermissionsMode (merge c cb) = cfgPermPortable → anyExecutableBitSet (endpointFileMode (merge c cb)) = false) := by
  obtain ⟨ha, hb⟩ := accepted_implies_endpoint_valid B c ca cb h
  exact ⟨endpoint_portable_no_exec B _ ha, endpoint_portable_no_exec B _ hb⟩

/-- **The unrepaired rule was not enough**: three individually valid configurations whose
merged alpha configuration the endpoint rejects (default file mode 0755 on the endpoint,
default — i.e. portable — permissions on the session). -/
theorem original_rule_insufficient (B : Build) :
    ∃ c ca cb, sessionAcceptsOriginal B c ca cb = .ok () ∧
      endpointAccepts B (merge c ca) = .error .fileModeExec := by
  let z : Configuration :=
    { synchronizationMode := 0, hashingAlgorithm := 0, maximumEntryCount := 0, maximumStagingFileSize := 0,
      probeMode := 0, scanMode := 0, stageMode := 0, symbolicLinkMode := 0, watchMode := 0,
      watchPollingInterval := 0, ignoreSyntax := 0, defaultIgnores := [], ignores := [], ignoreVCSMode := 0,
      permissionsMode := 0, defaultFileMode := 0, defaultDirectoryMode := 0, defaultOwner := [],
      defaultGroup := [], compressionAlgorithm := 0 }
  refine ⟨z, { z with defaultFileMode := 0o755 }, z, ?_, ?_⟩
  · rw [sessionAcceptsOriginal_ok_iff]
    refine ⟨rfl, ?_, rfl⟩
    simp [z, ensureValid, checks, firstError, modeOK, nonPermissionBits, effectivePermissionsMode,
      cfgModePermissionsMask, cfgPermPortable]
  · simp [z, endpointAccepts, ensureValid, merge, pick, pickStr, checks, firstError, modeOK, nonPermissionBits,
      anyExecutableBitSet, effectivePermissionsMode, defaultPermissionsMode, cfgModePermissionsMask, cfgPermPortable,
      cfgModeUserExecute, cfgModeGroupExecute, cfgModeOthersExecute]

/-! ## Merge precedence -/

/-- Endpoint-specific (higher-priority) values override session-wide ones field by
field: a field of the higher configuration wins unless it is the zero value. -/
theorem merge_precedence (l h : Configuration) :
    let m := merge l h
    m.synchronizationMode = (if h.synchronizationMode ≠ 0 then h.synchronizationMode else l.synchronizationMode) ∧
    m.hashingAlgorithm = (if h.hashingAlgorithm ≠ 0 then h.hashingAlgorithm else l.hashingAlgorithm) ∧
    m.maximumEntryCount = (if h.maximumEntryCount ≠ 0 then h.maximumEntryCount else l.maximumEntryCount) ∧
    m.maximumStagingFileSize = (if h.maximumStagingFileSize ≠ 0 then h.maximumStagingFileSize else l.maximumStagingFileSize) ∧
    m.probeMode = (if h.probeMode ≠ 0 then h.probeMode else l.probeMode) ∧
    m.scanMode = (if h.scanMode ≠ 0 then h.scanMode else l.scanMode) ∧
    m.stageMode = (if h.stageMode ≠ 0 then h.stageMode else l.stageMode) ∧
    m.symbolicLinkMode = (if h.symbolicLinkMode ≠ 0 then h.symbolicLinkMode else l.symbolicLinkMode) ∧
    m.watchMode = (if h.watchMode ≠ 0 then h.watchMode else l.watchMode) ∧
    m.watchPollingInterval = (if h.watchPollingInterval ≠ 0 then h.watchPollingInterval else l.watchPollingInterval) ∧
    m.ignoreSyntax = (if h.ignoreSyntax ≠ 0 then h.ignoreSyntax else l.ignoreSyntax) ∧
    m.ignoreVCSMode = (if h.ignoreVCSMode ≠ 0 then h.ignoreVCSMode else l.ignoreVCSMode) ∧
    m.permissionsMode = (if h.permissionsMode ≠ 0 then h.permissionsMode else l.permissionsMode) ∧
    m.defaultFileMode = (if h.defaultFileMode ≠ 0 then h.defaultFileMode else l.defaultFileMode) ∧
    m.defaultDirectoryMode = (if h.defaultDirectoryMode ≠ 0 then h.defaultDirectoryMode else l.defaultDirectoryMode) ∧
    m.defaultOwner = (if h.defaultOwner ≠ [] then h.defaultOwner else l.defaultOwner) ∧
    m.defaultGroup = (if h.defaultGroup ≠ [] then h.defaultGroup else l.defaultGroup) ∧
    m.compressionAlgorithm = (if h.compressionAlgorithm ≠ 0 then h.compressionAlgorithm else l.compressionAlgorithm) := by
  simp [merge, pick, pickStr]

/-- Ignore lists are concatenated in order: session-wide first, endpoint-specific after. -/
theorem merge_ignores_concatenated (l h : Configuration) :
    (merge l h).defaultIgnores = l.defaultIgnores ++ h.defaultIgnores ∧
    (merge l h).ignores = l.ignores ++ h.ignores := by
  simp [merge]

theorem pick_assoc (a b c : Nat) : pick c (pick b a) = pick (pick c b) a := by
  by_cases hc : c = 0 <;> by_cases hb : b = 0 <;> simp [pick, hc, hb]

theorem pickStr_assoc (a b c : Str) : pickStr c (pickStr b a) = pickStr (pickStr c b) a := by
  by_cases hc : c = [] <;> by_cases hb : b = [] <;> simp [pickStr, hc, hb]

/-- Merging is associative: layering configurations one at a time or all at once agree. -/
theorem merge_assoc (a b c : Configuration) : merge (merge a b) c = merge a (merge b c) := by
  simp [merge, pick_assoc, pickStr_assoc]

/-! ## Mode text forms -/

/-- Round trip for one table: every supported value is written as a text that reads back as the value. -/
theorem roundtrip_of_table (t : ModeTable)
    (h : ∀ p ∈ t, p.1 ≠ 0 ∧ marshalText t p.1 = p.2 ∧ unmarshalText t p.2 = some p.1) :
    ∀ v, supportedIn t v = true → unmarshalText t (marshalText t v) = some v := by
  intro v hv
  simp only [supportedIn, List.any_eq_true, beq_iff_eq] at hv
  obtain ⟨p, hp, rfl⟩ := hv
  obtain ⟨_, h2, h3⟩ := h p hp
  rw [h2, h3]

/-- **Every mode written as text is read back as the same value** — all enumerations of the
configuration: synchronization mode, hashing algorithm, probe / scan / stage / symbolic link /
watch modes, ignore syntax, permissions mode, compression algorithm. -/
theorem mode_text_round_trip :
    ∀ t ∈ [synchronizationModes, hashingAlgorithms, probeModes, scanModes, stageModes, symbolicLinkModes,
           watchModes, ignoreSyntaxes, permissionsModes, compressionAlgorithms],
      ∀ v, supportedIn t v = true → unmarshalText t (marshalText t v) = some v := by
  intro t ht
  simp only [List.mem_cons, List.mem_nil_iff, or_false] at ht
  rcases ht with rfl | rfl | rfl | rfl | rfl | rfl | rfl | rfl | rfl | rfl <;>
    exact roundtrip_of_table _ (by decide)

/-- The VCS ignore mode is written by `MarshalJSON` (`true` / `false`) and read back by `UnmarshalText`. -/
theorem vcs_mode_text_round_trip (v : Nat) (hv : supportedIn ignoreVCSModes v = true) :
    ∃ s, marshalJSON ignoreVCSModes v = some s ∧ unmarshalText ignoreVCSModes s = some v := by
  simp only [supportedIn, List.any_eq_true, beq_iff_eq] at hv
  obtain ⟨p, hp, rfl⟩ := hv
  have : ∀ p ∈ ignoreVCSModes, ∃ s, marshalJSON ignoreVCSModes p.1 = some s ∧ unmarshalText ignoreVCSModes s = some p.1 := by
    decide
  exact this p hp

/-- Conversely, a text that is accepted denotes a supported value whose text it is. -/
theorem mode_text_unmarshal_sound :
    ∀ t ∈ [synchronizationModes, hashingAlgorithms, probeModes, scanModes, stageModes, symbolicLinkModes,
           watchModes, ignoreSyntaxes, permissionsModes, compressionAlgorithms],
      ∀ s v, unmarshalText t s = some v → supportedIn t v = true ∧ marshalText t v = s := by
  intro t ht s v hs
  simp only [unmarshalText, Option.map_eq_some_iff] at hs
  obtain ⟨p, hp, rfl⟩ := hs
  have hmem := List.mem_of_find?_eq_some hp
  have hsat := List.find?_some hp
  simp only [beq_iff_eq] at hsat
  subst hsat
  have key : ∀ q ∈ t, supportedIn t q.1 = true ∧ marshalText t q.1 = q.2 := by
    simp only [List.mem_cons, List.mem_nil_iff, or_false] at ht
    rcases ht with rfl | rfl | rfl | rfl | rfl | rfl | rfl | rfl | rfl | rfl <;> decide
  exact key p hmem

/-! ## Non-vacuity -/

/-- An accepted session with non-trivial settings on all three levels: manual permissions and an
ignore list on the session, an executable default file mode on alpha (fine under manual
permissions), a watch mode and an owner on beta. -/
example : sessionAccepts plainBuild
    { emptyConfiguration with permissionsMode := cfgPermManual, ignores := ["*.o".toList], synchronizationMode := cfgSyncOneWaySafe }
    { emptyConfiguration with defaultFileMode := 0o755 }
    { emptyConfiguration with watchMode := cfgWatchNoWatch, defaultOwner := "id:1000".toList } = .ok () := by
  decide

/-- The same endpoint-specific file mode under (default) portable permissions is now rejected at session level. -/
example : sessionAccepts plainBuild emptyConfiguration { emptyConfiguration with defaultFileMode := 0o755 } emptyConfiguration =
    .error (.mergedAlpha, .fileModeExec) := by
  decide

end Mutagen.Properties.C37
