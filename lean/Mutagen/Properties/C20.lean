import Mutagen.Model.Rsync
namespace Mutagen.Properties.C20
open Mutagen.Model.Rsync

/-- placeholder while the drivers are being tied; replaced below. -/
theorem ensureValid_blockOp (s c : Nat) (h : c ≠ 0) : (blockOp s c).ensureValid = true := by
  simp [blockOp, Operation.ensureValid, h]

end Mutagen.Properties.C20
