import Mutagen.Proofs.RsyncRecon
import Mutagen.Proofs.RsyncTransmit
/-!
# C20 — rsync transfers report every transmission failure

All theorems are about the *repaired* `Deltify` (`fixed = true`, fixes/C20.patch:
`sendBlock` returns the error of a failed flush instead of `nil`). The code as
found (`fixed = false`) violates the property; `unrepaired_swallows_failure`
below is a machine-checked counterexample.

`plan H target sig maxOp` is the operation list of the failure-free run
(`Mutagen.Proofs.Rsync.plan`); by `Mutagen.Properties.C19` patching it onto the
base rebuilds the target.
-/
namespace Mutagen.Properties.C20
open Mutagen.Model.Rsync Mutagen.Proofs.Rsync

variable {D : Type} [DecidableEq D] (H : List UInt8 → D)

/-- **Main theorem, any transmitter.** For every transmit callback `xmit` with
any state, every target, signature and size limit: `Deltify` hands exactly the
operations of the failure-free run to the callback, in order, stops at the
first call that fails, returns an error iff a call failed, and otherwise ends
as the failure-free run does. -/
theorem deltify_is_plan_until_first_failure {τ : Type} (xmit : Operation → τ → τ × Bool)
    (target : List UInt8) (sig : Signature D) (maxDataOpSize : Nat) (tx0 : τ) :
    deltify xmit H true target sig maxDataOpSize tx0 =
      ((runOps xmit (plan H target sig maxDataOpSize).1 tx0).1,
        if (runOps xmit (plan H target sig maxDataOpSize).1 tx0).2 then Exit.err
        else (plan H target sig maxDataOpSize).2) :=
  deltify_eq_runOps H xmit target sig maxDataOpSize tx0

/-- The failure-free run ends normally for every valid signature (no Go panic,
the model's fuel suffices). -/
theorem plan_ends_ok (target : List UInt8) (sig : Signature D) (maxDataOpSize : Nat)
    (hv : sig.hashes.length = 0 ∨ 0 < sig.blockSize) :
    (plan H target sig maxDataOpSize).2 = .ok :=
  plan_exit_ok H target sig maxDataOpSize hv

/-- **For every transmit-failure script: if `Deltify` returns success then every
operation was delivered, in order** (the log of attempted calls is exactly the
plan, each accepted). -/
theorem deltify_reports_failure (fails : Nat → Bool) (target : List UInt8) (sig : Signature D)
    (maxDataOpSize : Nat)
    (hok : (deltify (Tx.transmit fails) H true target sig maxDataOpSize Tx.empty).2 = .ok) :
    (deltify (Tx.transmit fails) H true target sig maxDataOpSize Tx.empty).1.log =
        (plan H target sig maxDataOpSize).1.map (·, true) ∧
    (deltify (Tx.transmit fails) H true target sig maxDataOpSize Tx.empty).1.delivered =
        (plan H target sig maxDataOpSize).1 := by
  rw [deltify_eq_runOps] at hok ⊢
  by_cases hx : (runOps (Tx.transmit fails) (plan H target sig maxDataOpSize).1 Tx.empty).2 = true
  · simp [hx] at hok
  · obtain ⟨h1, h2, _⟩ := scripted_log_ok fails (plan H target sig maxDataOpSize).1 (by simpa using hx)
    exact ⟨h1, h2⟩

/-- **Either the sender returns an error or the receiver has obtained exactly
the target data**: for every failure script, base, target, block size `> 0` and
size limit, if `Deltify` (against the base's signature) returns success then
patching the base with the operations the transmitter accepted yields the
target — under the no-collision hypothesis of C19. -/
theorem deltify_ok_receiver_has_target (fails : Nat → Bool) (base target : List UInt8)
    (blockSize : Nat) (hbs : 0 < blockSize) (maxDataOpSize : Nat)
    (hnc : NoCollision H base blockSize target)
    (hok : (deltify (Tx.transmit fails) H true target (signature H base blockSize) maxDataOpSize
      Tx.empty).2 = .ok) :
    patchBytes base (signature H base blockSize)
      (deltify (Tx.transmit fails) H true target (signature H base blockSize) maxDataOpSize
        Tx.empty).1.delivered = some target := by
  rw [(deltify_reports_failure H fails target _ maxDataOpSize hok).2]
  exact reconstruct H base target blockSize hbs maxDataOpSize hnc

/-- Success is reported exactly when no transmission of the plan fails. -/
theorem deltify_ok_iff_no_failure (fails : Nat → Bool) (target : List UInt8) (sig : Signature D)
    (maxDataOpSize : Nat) (hv : sig.hashes.length = 0 ∨ 0 < sig.blockSize) :
    (deltify (Tx.transmit fails) H true target sig maxDataOpSize Tx.empty).2 = .ok ↔
      ∀ i, i < (plan H target sig maxDataOpSize).1.length → fails i = false := by
  rw [deltify_eq_runOps]
  simp only [plan_exit_ok H target sig maxDataOpSize hv]
  constructor
  · intro h
    by_cases hx : (runOps (Tx.transmit fails) (plan H target sig maxDataOpSize).1 Tx.empty).2 = true
    · simp [hx] at h
    · exact (scripted_log_ok fails _ (by simpa using hx)).2.2
  · intro h
    simp [scripted_no_failure fails _ h]

/-- When a transmission fails, `Deltify` returns an error, the failed call is
the last call it makes, and everything before it was delivered in plan order. -/
theorem deltify_failure_is_last_call (fails : Nat → Bool) (target : List UInt8) (sig : Signature D)
    (maxDataOpSize : Nat) (hv : sig.hashes.length = 0 ∨ 0 < sig.blockSize)
    (hne : (deltify (Tx.transmit fails) H true target sig maxDataOpSize Tx.empty).2 ≠ .ok) :
    (deltify (Tx.transmit fails) H true target sig maxDataOpSize Tx.empty).2 = .err ∧
    ∃ k, ∃ hk : k < (plan H target sig maxDataOpSize).1.length,
      fails k = true ∧ (∀ i, i < k → fails i = false) ∧
      (deltify (Tx.transmit fails) H true target sig maxDataOpSize Tx.empty).1.log =
        ((plan H target sig maxDataOpSize).1.take k).map (·, true) ++
          [((plan H target sig maxDataOpSize).1[k], false)] := by
  rw [deltify_eq_runOps] at hne ⊢
  simp only [plan_exit_ok H target sig maxDataOpSize hv] at hne ⊢
  by_cases hx : (runOps (Tx.transmit fails) (plan H target sig maxDataOpSize).1 Tx.empty).2 = true
  · exact ⟨by simp [hx], scripted_log_err fails _ hx⟩
  · simp [hx] at hne

/-- `DeltifyBytes` (transmitter that never fails) returns exactly the plan. -/
theorem deltifyBytes_is_plan (target : List UInt8) (sig : Signature D) (maxDataOpSize : Nat) :
    deltifyBytes H target sig maxDataOpSize = plan H target sig maxDataOpSize :=
  deltifyBytes_eq_plan H target sig maxDataOpSize

/-- **`Transmit` (transmit.go) reports every reception failure**: for every
script of failing `Receive` calls, every list of files (openable or not) and
signatures, if `Transmit` returns success then every `Receive` call succeeded
and so did the final `finalize`; the numbers of paths and signatures agree. -/
theorem transmit_reports_failure (fails : Nat → Bool) (finalizeFails : Bool)
    (files : List (Option (List UInt8))) (sigs : List (Signature D))
    (hok : (transmit H true fails finalizeFails files sigs).2 = false) :
    (∀ e ∈ (transmit H true fails finalizeFails files sigs).1.log, e.2 = true) ∧
    finalizeFails = false ∧ files.length = sigs.length := by
  unfold transmit at hok ⊢
  by_cases hl : files.length = sigs.length
  · simp only [hl, ne_eq, not_true_eq_false, if_false] at hok ⊢
    obtain ⟨_, h2⟩ := transmitLoop_spec H fails finalizeFails (files.zip sigs) Rx.empty
    obtain ⟨hff, hall⟩ := h2 hok
    refine ⟨?_, hff, trivial⟩
    intro e he
    have := hall (by simp [RxAllOk, Rx.empty])
    exact this e (by simpa [Rx.log] using he)
  · simp [hl] at hok

/-- **When `Transmit` reports success the receiver has obtained the complete
stream**: exactly, in order and each accepted — for every openable file the
operations of its delta (the first carrying the file size as expected size)
followed by a done message, for every unopenable file a done message with an
error. -/
theorem transmit_delivers_everything (fails : Nat → Bool) (finalizeFails : Bool)
    (files : List (Option (List UInt8))) (sigs : List (Signature D))
    (hok : (transmit H true fails finalizeFails files sigs).2 = false) :
    (transmit H true fails finalizeFails files sigs).1.log =
      (expectedMsgs H (files.zip sigs)).map (·, true) := by
  unfold transmit at hok ⊢
  by_cases hl : files.length = sigs.length
  · simp only [hl, ne_eq, not_true_eq_false, if_false] at hok ⊢
    unfold Rx.log
    rw [transmitLoop_log H fails finalizeFails (files.zip sigs) Rx.empty hok]
    simp [Rx.empty]
  · simp [hl] at hok

/-- On every path — success, failed `Receive`, unopenable file, mismatched
lengths — `Transmit` finalizes the receiver exactly once. -/
theorem transmit_finalizes_once (fails : Nat → Bool) (finalizeFails : Bool)
    (files : List (Option (List UInt8))) (sigs : List (Signature D)) :
    (transmit H true fails finalizeFails files sigs).1.finalized = 1 := by
  unfold transmit
  by_cases hl : files.length = sigs.length
  · simp only [hl, ne_eq, not_true_eq_false, if_false]
    simpa [Rx.empty] using (transmitLoop_spec H fails finalizeFails (files.zip sigs) Rx.empty).1
  · simp [hl, Rx.finalize, Rx.empty]

/-! ## Non-vacuity and the defect in the code as found

Base `a`, target `aa`, block size 1, strong hash = identity. The plan is two
block operations `B0+1, B0+1` (block 0 matched twice; the second match does not
extend the pending run, so the first is flushed inside `sendBlock`). -/

/-- The hypotheses are satisfiable and the plan is non-trivial. -/
example : (plan id [97, 97] (signature id [97] 1) 1).1 = [blockOp 0 1, blockOp 0 1] := by decide

/-- Repaired code, first transmission fails: an error is returned. -/
example : (deltify (Tx.transmit (· == 0)) id true [97, 97] (signature id [97] 1) 1 Tx.empty).2 = .err := by
  decide

/-- **The code as found swallows the failure**: with the first transmission
failing (once), the unrepaired `Deltify` returns success although the receiver
was handed a single block operation, which rebuilds `a`, not the target `aa`. -/
theorem unrepaired_swallows_failure :
    (deltify (Tx.transmit (· == 0)) id false [97, 97] (signature id [97] 1) 1 Tx.empty).2 = .ok ∧
    (deltify (Tx.transmit (· == 0)) id false [97, 97] (signature id [97] 1) 1 Tx.empty).1.delivered
      = [blockOp 0 1] ∧
    patchBytes [97] (signature id [97] 1) [blockOp 0 1] = some [97] := by
  decide

end Mutagen.Properties.C20
