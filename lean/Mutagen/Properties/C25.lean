import Mutagen.Model.Mux
/-!
# C25 — multiplexer operations never hang; a slow stream never blocks others

Safety forms only: every blocked call has, for each of its documented exit
causes, an enabled transition after which the call returns (its model function
no longer answers `block`). That the exit cause eventually *happens* (timers
fire, the carrier makes progress, the scheduler is fair) is assumed.
-/
namespace Mutagen.Properties.C25
open Mutagen.Model.Mux

/-! ## Read -/

/-- A deadline in the past (or an expired timer observed by the holder) ends a read. -/
theorem read_exit_deadline_set (s : Side) (id n now : Nat) (st : Stream)
    (h : s.streams id = some st) (hc : st.closed = false) :
    ((s.setReadDeadline id .past).1.read id n now).2 ≠ .block := by
  simp [Side.setReadDeadline, h, hc, Side.read, Side.setStream]
  split <;> simp

/-- An armed read deadline that has passed ends a read. -/
theorem read_exit_deadline_timer (s : Side) (id n now t : Nat) (st : Stream)
    (h : s.streams id = some st) (ht : st.readTimer = some t) (hle : t ≤ now) :
    (s.read id n now).2 ≠ .block := by
  simp [Side.read, h, ht, hle]
  repeat (split <;> try simp)

/-- Local `Close` ends a read with `net.ErrClosed`. -/
theorem read_exit_local_close (s : Side) (id n now : Nat) (st : Stream)
    (h : s.streams id = some st) :
    ((s.markClosed id).read id n now).2 = .closed := by
  simp [Side.markClosed, h, Side.read, Side.setStream]

/-- Closing the multiplexer ends a read. -/
theorem read_exit_mux_close (s : Side) (id n now : Nat) (hc : s.closedMux = true) :
    (s.read id n now).2 ≠ .block := by
  simp [Side.read, hc]
  repeat (split <;> try simp)

/-- A delivered remote close (or close-write) ends a read: data or EOF. -/
theorem read_exit_remote_close (s s' : Side) (id n now : Nat) (st : Stream)
    (h : s.streams id = some st) (hr : st.registered = true)
    (hd : s.deliver (.close id) = .ok s') :
    (s'.read id n now).2 ≠ .block := by
  have hl : s.lookup id = some st := by simp [Side.lookup, h, hr]
  simp only [Side.deliver, hl] at hd
  repeat (split at hd <;> try simp at hd)
  subst hd
  simp [Side.read, Side.setStream]
  repeat (split <;> try simp)

theorem read_exit_remote_close_write (s s' : Side) (id n now : Nat) (st : Stream)
    (h : s.streams id = some st) (hr : st.registered = true)
    (hd : s.deliver (.closeWrite id) = .ok s') :
    (s'.read id n now).2 ≠ .block := by
  have hl : s.lookup id = some st := by simp [Side.lookup, h, hr]
  simp only [Side.deliver, hl] at hd
  repeat (split at hd <;> try simp at hd)
  subst hd
  simp [Side.read, Side.setStream]
  repeat (split <;> try simp)

/-! ## Write: `writePre` is the set of exits of the blocked `select` -/

theorem write_exit_deadline_set (s : Side) (id now : Nat) (st : Stream)
    (h : s.streams id = some st) (hc : st.closedWrite = false) :
    ((s.setWriteDeadline id .past).1.writePre id now).2 ≠ none := by
  simp [Side.setWriteDeadline, h, hc, Side.writePre, Side.setStream]
  repeat (split <;> try simp)

theorem write_exit_deadline_timer (s : Side) (id now t : Nat) (st : Stream)
    (h : s.streams id = some st) (ht : st.writeTimer = some t) (hle : t ≤ now) :
    (s.writePre id now).2 ≠ none := by
  simp [Side.writePre, h, ht, hle]
  repeat (split <;> try simp)

/-- Local `CloseWrite`/`Close` (both start by closing `closedWrite`). -/
theorem write_exit_local_close (s : Side) (id now : Nat) :
    ((s.markClosedWrite id).writePre id now).2 ≠ none := by
  cases h : s.streams id <;> simp [Side.markClosedWrite, h, Side.writePre, Side.setStream]
  repeat (split <;> try simp)

theorem write_exit_mux_close (s : Side) (id now : Nat) (hc : s.closedMux = true) :
    (s.writePre id now).2 ≠ none := by
  cases h : s.streams id <;> simp [Side.writePre, h, hc]
  repeat (split <;> try simp)

theorem write_exit_remote_close (s s' : Side) (id now : Nat) (st : Stream)
    (h : s.streams id = some st) (hr : st.registered = true)
    (hd : s.deliver (.close id) = .ok s') :
    (s'.writePre id now).2 ≠ none := by
  have hl : s.lookup id = some st := by simp [Side.lookup, h, hr]
  simp only [Side.deliver, hl] at hd
  repeat (split at hd <;> try simp at hd)
  subst hd
  simp [Side.writePre, Side.setStream]
  repeat (split <;> try simp)

/-- A writer that waits for the send window makes no step at all: it changes
no state and emits nothing, so it holds no write buffer (Go: the poll on
`writeBufferAvailable` is disabled until `sendWindowReady` fired) and every
other call sees the same multiplexer as without it. -/
theorem writer_holds_no_buffer_while_windowless (s : Side) (id : Nat) (data : List UInt8) (st : Stream)
    (h : s.streams id = some st) (hw : st.sendWindow = 0) :
    s.writeChunk id data = (s, [], data) := by
  simp [Side.writeChunk, h, hw]

/-- … and a window increment is the exit: afterwards the writer emits data. -/
theorem write_exit_window (s : Side) (id : Nat) (data : List UInt8) (st : Stream)
    (h : s.streams id = some st) (hw : st.sendWindow ≠ 0) (hd : data ≠ []) :
    (s.writeChunk id data).2.1 ≠ [] := by
  have hl : data.length ≠ 0 := by simpa using hd
  have hmin : min st.sendWindow (min data.length Mutagen.Facts.muxMaximumStreamDataBlockSize) ≠ 0 := by
    simp only [Mutagen.Facts.muxMaximumStreamDataBlockSize]; omega
  simp [Side.writeChunk, h, hmin]

/-! ## OpenStream / AcceptStream -/

theorem open_exit_cancel (s : Side) (id : Nat) (st : Stream) (h : s.streams id = some st) :
    (s.openWait id true).2 ≠ .block := by
  simp [Side.openWait, h]
  repeat (split <;> try simp)

theorem open_exit_mux_close (s : Side) (id : Nat) (st : Stream) (h : s.streams id = some st)
    (hc : s.closedMux = true) : (s.openWait id false).2 ≠ .block := by
  simp [Side.openWait, h, hc]
  repeat (split <;> try simp)

theorem accept_exit_cancel (s : Side) (g : Bool) (h : s.backlog = []) :
    (s.acceptOne g true).2.2 = .canceled := by
  simp [Side.acceptOne, h]

theorem accept_exit_mux_close (s : Side) (g : Bool) (h : s.backlog = []) (hc : s.closedMux = true) :
    (s.acceptOne g false).2.2 = .muxClosed := by
  simp [Side.acceptOne, h, hc]

/-- An open request beyond the accept backlog is not left pending: the reader
creates no stream and enqueues a close for it (which the enqueue goroutine then
puts on the wire) … -/
theorem backlog_overflow_rejected (s : Side) (id win : Nat)
    (hid : id ≠ 0) (hin : s.isOutbound id = false) (hmono : s.largestIn < id)
    (hfull : s.backlog.length = s.backlogCap) (hopen : s.closedMux = false) :
    ∃ s', s.deliver (.open id win) = .ok s' ∧ s'.streams id = s.streams id ∧ s'.backlog = s.backlog
      ∧ (s'.flushClose id).2 = [.close id] := by
  refine ⟨({ s with largestIn := id }).enqClose id, ?_, ?_, ?_, ?_⟩
  · simp [Side.deliver, hid, hin, Nat.not_le.mpr hmono, hfull]
  · simp [Side.enqClose, hopen]
  · simp [Side.enqClose, hopen]
  · simp [Side.enqClose, hopen, Side.flushClose]

/-- … and when that close reaches the opener, `OpenStream` returns
`ErrStreamRejected`. -/
theorem open_exit_rejected (s s' : Side) (id : Nat) (st : Stream)
    (h : s.streams id = some st) (hr : st.registered = true) (he : st.established = false)
    (hd : s.deliver (.close id) = .ok s') :
    (s'.openWait id false).2 = .rejected := by
  have hl : s.lookup id = some st := by simp [Side.lookup, h, hr]
  simp only [Side.deliver, hl] at hd
  repeat (split at hd <;> try simp at hd)
  subst hd
  simp [Side.openWait, Side.setStream, he]

/-- An accepted open request makes `OpenStream` return the stream. -/
theorem open_exit_accepted (s s' : Side) (id win : Nat) (st : Stream)
    (h : s.streams id = some st) (hr : st.registered = true)
    (hd : s.deliver (.accept id win) = .ok s') :
    (s'.openWait id false).2 = .ok := by
  have hl : s.lookup id = some st := by simp [Side.lookup, h, hr]
  simp only [Side.deliver, hl] at hd
  repeat (split at hd <;> try simp at hd)
  subst hd
  simp [Side.openWait, Side.setStream]

/-- Non-vacuity: a stream with an empty buffer really blocks a read, and a
windowless stream really blocks a writer. -/
example : let s := (Side.new false 8 2).setStream 1 { recvCap := 8, established := true }
    (s.read 1 4 0).2 = .block ∧ (s.writePre 1 0).2 = none ∧ s.writeChunk 1 [1, 2] = (s, [], [1, 2]) := by
  simp [Side.new, Side.setStream, Side.read, Side.writePre, Side.writeChunk]

end Mutagen.Properties.C25
