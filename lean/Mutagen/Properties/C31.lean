import Mutagen.Model.Coalescer
import Mutagen.Proofs.Coalescer
/-!
# C31 — coalesced signals are never lost

Theorems over the timed automaton of the coalescer's run loop
(`Mutagen.Model.Coalescer`). `Reachable w s`: `s` is reachable from
`NewCoalescer(w)` by any interleaving of strobes, time steps, timer expiry,
the loop's timer branch, consumer receives, `Terminate` and the loop's exit.

Timer accuracy is an assumption built into the model (time cannot pass an
armed timer's deadline before `expire`); scheduler fairness (an enabled
`deliver` eventually happens) is not exhibited — liveness is stated as
"pending until delivered, and the next step is enabled".
-/
namespace Mutagen.Properties.C31
open Mutagen.Model.Coalescer Mutagen.Proofs.Coalescer

/-- **At most one signal is ever buffered.** -/
theorem at_most_one_buffered (w : Nat) (s : State) (hs : Reachable w s) : s.sig ≤ 1 :=
  (inv_reachable w s hs).sig_le

/-- **A strobe is never forgotten.** After a strobe at time `t0`, as long as
the loop has not exited, exactly one of the following holds: the timer is armed
for `t0 + window` (and that time has not passed); or it has expired (not before
`t0 + window`) and its value is waiting for the loop; or the loop has taken the
timer branch (not before `t0 + window`) — which leaves a signal in the buffer,
see `deliver_leaves_signal`. -/
theorem strobe_pending_until_signal (w : Nat) (s : State) (hs : Reachable w s) (t0 : Nat)
    (hl : s.lastStrobe = some t0) (hne : s.exited = false) :
    (s.deadline = some (t0 + w) ∧ s.fired = false ∧ s.delivers = 0 ∧ s.now ≤ t0 + w) ∨
    (s.deadline = none ∧ s.fired = true ∧ s.delivers = 0 ∧ t0 + w ≤ s.now) ∨
    (s.deadline = none ∧ s.fired = false ∧ s.delivers = 1 ∧ t0 + w ≤ s.now) := by
  have hi := inv_reachable w s hs
  have hw := hi.window
  rcases hi.phase with ⟨h1, _⟩ | ⟨t, h1, h2, h3, h4, h5, _⟩ | ⟨t, h1, h2, h3, h4, h5, _⟩ | ⟨t, h1, h2, h3, h4, h5⟩ | ⟨h1, _⟩
  · rw [hl] at h1; cases h1
  · rw [hl] at h1; cases h1; rw [hw] at h2 h5; exact Or.inl ⟨h2, h3, h4, h5⟩
  · rw [hl] at h1; cases h1; rw [hw] at h5; exact Or.inr (Or.inl ⟨h2, h3, h4, h5⟩)
  · rw [hl] at h1; cases h1; rw [hw] at h5; exact Or.inr (Or.inr ⟨h2, h3, h4, h5⟩)
  · rw [hne] at h1; cases h1

/-- **Once strobes have stopped for the window, the signal is on its way.** If
more than `window` has passed since the last strobe and the loop has not
exited, the timer has expired: its value is waiting for the loop or the loop
has already taken the timer branch. (Time cannot pass the deadline while the
timer is still armed.) -/
theorem signal_due_after_window (w : Nat) (s : State) (hs : Reachable w s) (t0 : Nat)
    (hl : s.lastStrobe = some t0) (hne : s.exited = false) (hlate : t0 + w < s.now) :
    (s.fired = true ∧ ∃ s', step s .deliver = some s') ∨ s.delivers = 1 := by
  rcases strobe_pending_until_signal w s hs t0 hl hne with ⟨_, _, _, h⟩ | ⟨_, h2, _, _⟩ | ⟨_, _, h3, _⟩
  · omega
  · exact Or.inl ⟨h2, deliver_enabled s h2 hne⟩
  · exact Or.inr h3

/-- The loop's timer branch always leaves a signal in the buffer: it sends one,
or one was already buffered. -/
theorem deliver_leaves_signal (w : Nat) (s s' : State) (hs : Reachable w s)
    (hd : step s .deliver = some s') : s'.sig = 1 ∧ s'.delivers = 1 := by
  have hi := inv_reachable w s hs
  have hi' := inv_step w s s' .deliver hi hd
  have hsig := hi.sig_le
  simp only [signalCap] at hsig
  simp only [step] at hd
  split at hd
  · rename_i hg
    have hdel : s.delivers = 0 := by
      rcases hi.phase with ⟨_, _, h3, _⟩ | ⟨_, _, _, h3, _⟩ | ⟨_, _, _, _, h4, _⟩ | ⟨_, _, _, h3, _⟩ | ⟨_, _, h3, _⟩
      · rw [hg.1] at h3; cases h3
      · rw [hg.1] at h3; cases h3
      · exact h4
      · rw [hg.1] at h3; cases h3
      · rw [hg.1] at h3; cases h3
    split at hd
    · rename_i hlt; cases hd; simp only [signalCap] at hlt; simp only; omega
    · rename_i hge; cases hd; simp only [signalCap] at hge; simp only; omega
  · cases hd

/-- Before the signal the system is never stuck (no deadlock short of the
signal): while the last strobe is still unanswered and the loop has not exited,
either time can advance up to the deadline, or the timer can expire, or the
loop can take its timer branch. -/
theorem progress_until_signal (w : Nat) (s : State) (hs : Reachable w s) (t0 : Nat)
    (hl : s.lastStrobe = some t0) (hne : s.exited = false) (h0 : s.delivers = 0) :
    (s.now < t0 + w ∧ ∀ d, s.now + d ≤ t0 + w → ∃ s', step s (.tick d) = some s') ∨
    (∃ s', step s .expire = some s') ∨ (∃ s', step s .deliver = some s') := by
  rcases strobe_pending_until_signal w s hs t0 hl hne with ⟨h1, _, _, h4⟩ | ⟨_, h2, _, _⟩ | ⟨_, _, h3, _⟩
  · by_cases hlt : s.now < t0 + w
    · left
      refine ⟨hlt, fun d hd => ?_⟩
      simp only [step, h1, hd, if_true]
      exact ⟨_, rfl⟩
    · right; left
      simp only [step, h1]
      rw [if_pos (by omega)]
      exact ⟨_, rfl⟩
  · exact Or.inr (Or.inr (deliver_enabled s h2 hne))
  · omega

/-- **No signal before the window has elapsed**, and **a burst yields a single
signal**: the loop takes its timer branch only when at least `window` has
passed since the most recent strobe, and at most once per most-recent strobe.
So strobes that follow each other within the window produce no signal in
between and exactly one timer branch (at most one send) after the last. -/
theorem burst_single_signal (w : Nat) (s : State) (hs : Reachable w s) :
    s.delivers ≤ 1 ∧
    (∀ s', step s .deliver = some s' → ∃ t0, s.lastStrobe = some t0 ∧ t0 + w ≤ s.now ∧ s.delivers = 0) := by
  have hi := inv_reachable w s hs
  have hw := hi.window
  constructor
  · rcases hi.phase with ⟨_, _, _, h⟩ | ⟨_, _, _, _, h, _⟩ | ⟨_, _, _, _, h, _⟩ | ⟨_, _, _, _, h, _⟩ | ⟨_, _, _, h⟩ <;> omega
  · intro s' hd
    simp only [step] at hd
    split at hd
    · rename_i hg
      rcases hi.phase with ⟨_, _, h3, _⟩ | ⟨_, _, _, h3, _⟩ | ⟨t0, h1, _, _, h4, h5, _⟩ | ⟨_, _, _, h3, _⟩ | ⟨_, _, h3, _⟩
      · rw [hg.1] at h3; cases h3
      · rw [hg.1] at h3; cases h3
      · rw [hw] at h5; exact ⟨t0, h1, h5, h4⟩
      · rw [hg.1] at h3; cases h3
      · rw [hg.1] at h3; cases h3
    · cases hd

/-- Signals are owed to strobes: the number of signals sent, plus one if a
signal is still pending (timer armed or expired), never exceeds the number of
strobes. -/
theorem sends_bounded_by_strobes (w : Nat) (s : State) (hs : Reachable w s) :
    s.sends + (if s.deadline.isSome ∨ s.fired = true then 1 else 0) ≤ s.strobes :=
  (inv_reachable w s hs).budget

/-- During a burst nothing is sent: strobes and time steps never send. -/
theorem burst_sends_nothing (s s' : State) (as : List Action)
    (hb : ∀ a ∈ as, a = .strobe ∨ ∃ d, a = .tick d) (hr : run s as = some s') :
    s'.sends = s.sends ∧ s'.sig = s.sig := by
  induction as generalizing s with
  | nil => simp [run] at hr; subst hr; exact ⟨rfl, rfl⟩
  | cons a as ih =>
    simp only [run] at hr
    cases hstep : step s a with
    | none => simp [hstep] at hr
    | some s1 =>
      simp [hstep] at hr
      have h1 : s1.sends = s.sends ∧ s1.sig = s.sig := by
        rcases hb a (List.mem_cons_self) with h | ⟨d, h⟩
        · subst h; simp only [step] at hstep; split at hstep <;> cases hstep; exact ⟨rfl, rfl⟩
        · subst h; simp only [step] at hstep
          split at hstep
          · split at hstep <;> cases hstep; exact ⟨rfl, rfl⟩
          · cases hstep; exact ⟨rfl, rfl⟩
      have h2 := ih s1 (fun a ha => hb a (List.mem_cons_of_mem _ ha)) hr
      exact ⟨h2.1.trans h1.1, h2.2.trans h1.2⟩

/-- After the loop has exited nothing is sent any more: only previously
buffered signals can still be received. -/
theorem quiet_after_exit (s s' : State) (a : Action) (he : s.exited = true) (hs : step s a = some s') :
    s'.sig ≤ s.sig ∧ s'.sends = s.sends ∧ s'.exited = true := by
  cases a with
  | strobe => simp [step, he] at hs
  | strobeDone => simp only [step, he, if_true] at hs; cases hs; exact ⟨Nat.le_refl _, rfl, he⟩
  | tick d =>
    simp only [step] at hs
    split at hs
    · split at hs <;> cases hs; exact ⟨Nat.le_refl _, rfl, he⟩
    · cases hs; exact ⟨Nat.le_refl _, rfl, he⟩
  | expire =>
    simp only [step] at hs
    split at hs
    · split at hs <;> cases hs; exact ⟨Nat.le_refl _, rfl, he⟩
    · cases hs
  | deliver => simp [step, he] at hs
  | recv =>
    simp only [step] at hs
    split at hs <;> cases hs
    exact ⟨Nat.sub_le _ _, rfl, he⟩
  | terminate => simp only [step] at hs; cases hs; exact ⟨Nat.le_refl _, rfl, he⟩
  | exit => simp [step, he] at hs

/-- `Terminate` completes: once the context is cancelled the loop's exit branch
is enabled. -/
theorem terminate_completes (s : State) (hc : s.cancelled = true) (hne : s.exited = false) :
    ∃ s', step s .exit = some s' ∧ s'.exited = true := by
  exact ⟨{ s with deadline := none, fired := false, exited := true }, by simp [step, hc, hne], rfl⟩

/-! ### Non-vacuity -/

/-- The canonical schedule, for every window: strobe, wait the window, the
timer expires, the loop delivers — one signal buffered. -/
theorem strobe_then_signal (w : Nat) :
    ∃ s, run (init w) [.strobe, .tick w, .expire, .deliver] = some s ∧ s.sig = 1 ∧ s.sends = 1 := by
  simp [run, step, init, signalCap]

/-- A burst of three strobes 4 apart with window 10, then quiet: exactly one
signal, at time 18 = last strobe + window. -/
example :
    ((run (init 10) [.strobe, .tick 4, .strobe, .tick 4, .strobe, .tick 10, .expire, .deliver, .tick 50]).map
      fun s => (s.sends, s.sig, s.lastStrobe, s.delivers)) = some (1, 1, some 8, 1) := by
  decide

/-- Two strobes further apart than the window: two signals (the consumer takes the first). -/
example :
    ((run (init 10) [.strobe, .tick 10, .expire, .deliver, .recv, .tick 5, .strobe, .tick 10, .expire, .deliver]).map
      fun s => (s.sends, s.sig)) = some (2, 1) := by
  decide

/-- Without a consumer the second signal is dropped: still one buffered. -/
example :
    ((run (init 10) [.strobe, .tick 10, .expire, .deliver, .tick 5, .strobe, .tick 10, .expire, .deliver]).map
      fun s => (s.sends, s.sig, s.delivers)) = some (1, 1, 1) := by
  decide

end Mutagen.Properties.C31
