import Mutagen.Proofs.ScanCold
open Mutagen.Model Mutagen.Model.ScanFS Mutagen.Proofs.ScanFrame Mutagen.Proofs.ScanPaths Mutagen.Proofs.ScanFS Mutagen.Proofs.ScanCold

theorem alookup_append {β} (q : String) (A B : List (String × β)) :
    alookup q (A ++ B) = match alookup q A with | some v => some v | none => alookup q B := by
  induction A with
  | nil => simp [alookup]
  | cons hd t ih =>
    obtain ⟨k, v⟩ := hd
    simp only [List.cons_append, alookup]
    split
    · rfl
    · exact ih

theorem alookup_none_of_keys {β} (q : String) (A : List (String × β)) (h : ∀ x ∈ A, x.1 ≠ q) : alookup q A = none := by
  induction A with
  | nil => rfl
  | cons hd t ih =>
    obtain ⟨k, v⟩ := hd
    simp only [alookup]
    rw [if_neg (h (k, v) (by simp))]
    exact ih (fun x hx => h x (by simp [hx]))

/-- A good name for path reasoning: not empty and free of `/`. -/
def pathName (s : Name) : Prop := slashFree s ∧ s ≠ ""

/-- The prefix the loop of a directory at `p` uses: empty at the root, `p/` below. -/
def GoodPfx (pfx : String) : Prop := pfx = "" ∨ ∃ p, p ≠ "" ∧ pfx = p ++ "/"

theorem goodPfx_ne (pfx name : String) (hn : name ≠ "") : pfx ++ name ≠ "" :=
  append_ne_empty pfx name hn

/-- Keys the cold loop over `cs` adds lie at or below `pfx ++ name'` for the name
`name'` of one of the children. -/
theorem coldL_keys (cfg : Cfg) (pfx : String) (all : Children) (mask : Bool) (cs : Children) (contents cs' : Contents) (d : St)
    (h : scanChildren cfg {} pfx all cs none mask contents {} = some (cs', d))
    (hnames : ∀ s ∈ entryNames cfg cs, pathName s) :
    ∀ x ∈ d.newCache, ∃ name' ∈ entryNames cfg cs, Under x.1 (pfx ++ name') := by
  intro x hx
  obtain ⟨raw, node, name, decoded, cp, isDir, ign, cm, hm, hpre, hxc⟩ :=
    (coldL_cache_mem cfg pfx all mask cs contents cs' d h x).mp hx
  have hn := preDispatch_go _ _ _ _ _ _ _ _ _ _ _ _ hpre
  have hmem : name ∈ entryNames cfg cs := by
    simp only [entryNames, List.mem_filterMap]
    exact ⟨(raw, node), hm, hn⟩
  have hcp := preDispatch_go_link _ _ _ _ _ _ _ _ _ _ _ _ hpre
  refine ⟨name, hmem, ?_⟩
  rw [← hcp]
  exact keysUnder_list cfg cs (raw, node) hm cp false cm _ (by rw [hcp]; exact goodPfx_ne pfx name (hnames name hmem).2) x hxc

theorem not_under_other (pfx name name' q k : String) (hn : pathName name) (hn' : pathName name') (hne : name ≠ name')
    (hq : Under q (pfx ++ name)) (hk : Under k (pfx ++ name')) : k ≠ q := by
  intro he
  subst he
  exact hne (under_same_name pfx name name' k hn.1 hn'.1 hq hk)

/-- LocNone: below the path of a name that no child of the directory reaches the
handler stage with, the cold loop caches nothing. -/
theorem coldL_locNone (cfg : Cfg) (pfx : String) (all : Children) (mask : Bool) (cs : Children) (contents cs' : Contents) (d : St)
    (h : scanChildren cfg {} pfx all cs none mask contents {} = some (cs', d))
    (hnames : ∀ s ∈ entryNames cfg cs, pathName s) (name : Name) (hname : pathName name)
    (hno : ∀ raw node decoded cp isDir ign cm, (raw, node) ∈ cs →
      preDispatch cfg {} pfx mask raw node ≠ .go name decoded cp isDir ign cm)
    (q : String) (hq : Under q (pfx ++ name)) : alookup q d.newCache = none := by
  apply alookup_none_of_keys
  intro x hx
  obtain ⟨raw, node, name', decoded, cp, isDir, ign, cm, hm, hpre, hxc⟩ :=
    (coldL_cache_mem cfg pfx all mask cs contents cs' d h x).mp hx
  have hn := preDispatch_go _ _ _ _ _ _ _ _ _ _ _ _ hpre
  have hmem : name' ∈ entryNames cfg cs := by
    simp only [entryNames, List.mem_filterMap]
    exact ⟨(raw, node), hm, hn⟩
  have hcp := preDispatch_go_link _ _ _ _ _ _ _ _ _ _ _ _ hpre
  have hne : name ≠ name' := by
    intro he
    subst he
    exact hno raw node decoded cp isDir ign cm hm hpre
  have hk : Under x.1 (pfx ++ name') := by
    rw [← hcp]
    exact keysUnder_list cfg cs (raw, node) hm cp false cm _ (by rw [hcp]; exact goodPfx_ne pfx name' (hnames name' hmem).2) x hxc
  exact not_under_other pfx name name' q x.1 hname (hnames name' hmem) hne hq hk
