#!/bin/sh
# Offline setup: build the Lean library + model driver and the Go harness.
set -e
cd "$(dirname "$0")"
export GOFLAGS=-mod=mod GOPROXY=off
mkdir -p out evidence harness/bin
python3 tools/mkroot.py
(cd lean && lake build)
cp /repo/go.sum harness/go.sum 2>/dev/null || true
(cd harness && go build -tags verif -o bin/ ./cmd/...)
echo setup-ok
