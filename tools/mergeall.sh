#!/bin/sh
# Merge every agent worktree branch into main; generated files are regenerated afterwards.
cd "$(dirname "$0")/.."
for w in .claude/worktrees/*; do
  b=$(git -C $w rev-parse HEAD)
  if git merge-base --is-ancestor $b HEAD; then continue; fi
  git add -A >/dev/null 2>&1; git commit -qm "wip before merge" >/dev/null 2>&1
  if ! git merge -q --no-edit $b >/dev/null 2>&1; then
    for f in $(git diff --name-only --diff-filter=U); do
      case "$f" in
        lean/Mutagen.lean|lean/Mutagen/Generated/Facts.lean|MANIFEST.json|harness/go.mod|harness/go.sum|evidence/*) git checkout --ours -- "$f" 2>/dev/null; git add "$f";;
        *) echo "CONFLICT in $f from $w"; ;;
      esac
    done
    if [ -n "$(git diff --name-only --diff-filter=U)" ]; then echo "unresolved conflicts merging $w; aborting that merge"; git merge --abort; continue; fi
    git commit -q --no-edit
  fi
  echo "merged $(basename $w)"
done
python3 tools/mkroot.py
python3 tools/mkmanifest.py
