#!/usr/bin/env python3
"""tools/mutate.py <prop> <scratch repo> <tools/mutants/Cxx.json> [names…]: apply each mutant (file, old, new) to the
scratch copy, run ./check <prop> with VERIF_REPO, report caught/missed, restore the file."""
import json, os, subprocess, sys
prop, repo, spec = sys.argv[1], sys.argv[2], sys.argv[3]
only = sys.argv[4:]
root = os.path.dirname(os.path.dirname(os.path.abspath(__file__)))
muts = json.load(open(spec))
for m in muts:
    if only and m["name"] not in only:
        continue
    path = os.path.join(repo, m["file"])
    orig = open(path).read()
    edits = m.get("edits") or [{"old": m["old"], "new": m["new"]}]
    bad = [e for e in edits if orig.count(e["old"]) != 1]
    if bad:
        print("MUTANT %s: a pattern does not occur exactly once, skipped" % m["name"])
        continue
    mutated = orig
    for e in edits:
        mutated = mutated.replace(e["old"], e["new"])
    open(path, "w").write(mutated)
    try:
        env = dict(os.environ, VERIF_REPO=repo)
        p = subprocess.run(["./check", prop], cwd=root, env=env, capture_output=True, text=True)
        out = p.stdout + p.stderr
        caught = "VIOLATION" in out
        first = [l for l in out.split("\n") if l.startswith("VIOLATION") or l.startswith(prop)]
        print("MUTANT %s: %s rc=%d :: %s" % (m["name"], "CAUGHT" if caught else "MISSED", p.returncode, " | ".join(first)[:400]))
        if caught:
            for l in out.split("\n"):
                if l.startswith("VIOLATION"):
                    rp = l.split("replay=")[1].split()[0]
                    try:
                        d = json.load(open(rp))
                        print("   replay:", json.dumps({k: d.get(k) for k in ("kind", "op", "impl", "oracle", "correspondence_that_no_longer_checks") if d.get(k)})[:600])
                    except Exception as e:
                        print("   (replay unreadable: %s)" % e)
    finally:
        open(path, "w").write(orig)
    sys.stdout.flush()
