#!/usr/bin/env python3
"""mutate.py <prop> <name>: apply one mutant to /tmp/mut-all, run the check, restore."""
import subprocess, sys, os
ROOT='/tmp/mut-all/'
EP='pkg/synchronization/endpoint/local/endpoint.go'
ST='pkg/synchronization/endpoint/local/staging/store/store.go'
CT='pkg/synchronization/controller.go'
MG='pkg/synchronization/manager.go'
M={
 'C41':{
  'stage-flag-not-cleared':(EP,'	e.scannedSinceLastStageCall = false\n','	_ = 0\n'),
  'stage-limit-off-by-one':(EP,'(e.maximumEntryCount-e.lastScanEntryCount) < uint64(len(paths))) {','(e.maximumEntryCount-e.lastScanEntryCount) <= uint64(len(paths))) {'),
  'staged-not-skipped':(EP,'		} else if available {\n			continue\n','		} else if available && len(path) > 1000 {\n			continue\n'),
  'copy-not-reverified':(EP,'	success, _ := e.stager.Contains(path, digest)\n	return success\n','	return true\n'),
  'transition-limit-off-by-one':(EP,'if e.maximumEntryCount < resultingEntryCount {','if e.maximumEntryCount <= resultingEntryCount {'),
  'store-ignores-path':(ST,'	storageName := digestHex + pathDigestHex\n','	storageName := digestHex\n	_ = pathDigestHex\n'),
  'transition-flag-not-cleared':(EP,'	e.scannedSinceLastTransitionCall = false\n','	_ = 0\n'),
  'copy-from-root-disabled':(EP,'	sourcePath, sourcePathOk := reverseLookupMap.Lookup(digest)\n	if !sourcePathOk {','	sourcePath, sourcePathOk := reverseLookupMap.Lookup(digest)\n	if !sourcePathOk || true {'),
 },
 'C29':{
  'pause-not-persisted':(CT,'		c.session.Paused = true\n		saveErr := encoding.MarshalAndSaveProtobuf(c.sessionPath, c.session)\n		c.stateLock.Unlock()\n		if saveErr != nil {','		c.session.Paused = true\n		var saveErr error\n		c.stateLock.Unlock()\n		if saveErr != nil {'),
  'flush-returns-before-cycle':(CT,'	// Now we need to wait for a response to the request, again watching for\n	// cancellation, failure, or termination.\n	select {','	// Now we need to wait for a response to the request, again watching for\n	// cancellation, failure, or termination.\n	if len(request) == 0 {\n		return nil\n	}\n	select {'),
  'terminate-keeps-archive':(CT,'		archiveRemoveErr := os.Remove(c.archivePath)\n','		var archiveRemoveErr error\n'),
  'reset-keeps-archive':(CT,'	if err := encoding.MarshalAndSaveProtobuf(c.archivePath, archive); err != nil {\n		return fmt.Errorf("unable to clear session history: %w", err)\n	}\n','	_ = archive\n'),
  'terminate-keeps-registration':(MG,'		delete(m.sessions, controller.session.Identifier)\n','		_ = controller\n'),
  'flush-not-full-scan':(CT,'		forceFullScan := flushRequest != nil\n','		forceFullScan := flushRequest != nil && false\n'),
  'pause-does-not-wait-for-loop':(CT,'	// Kill any existing synchronization loop.\n	if c.cancel != nil {\n		// Cancel the synchronization loop and wait for it to finish.\n		c.cancel()\n		<-c.done\n','	// Kill any existing synchronization loop.\n	if c.cancel != nil {\n		// Cancel the synchronization loop and wait for it to finish.\n		c.cancel()\n		if mode != controllerHaltModePause {\n			<-c.done\n		}\n		c.done = make(chan struct{})\n'),
  'resume-does-not-clear-flag':(CT,'	c.session.Paused = false\n	saveErr := encoding.MarshalAndSaveProtobuf(c.sessionPath, c.session)\n','	c.session.Paused = false\n	var saveErr error\n'),
 },
 'C42':{
  'transition-keeps-acceleration':(EP,'		if e.watchMode == reifiedWatchModePoll {\n			e.accelerate = false\n','		if e.watchMode == reifiedWatchModePoll {\n			_ = 0\n'),
  'transition-does-not-strobe':(EP,'	if e.watchMode == reifiedWatchModePoll && transitionMadeChanges {\n		e.pollSignal.Strobe()\n	}','	if e.watchMode == reifiedWatchModePoll && transitionMadeChanges {\n		_ = 0\n	}'),
  'poll-never-strobes':(EP,'		if modified && !ignoreModifications {','		if modified && !ignoreModifications && false {'),
  'full-scan-accelerated':(EP,'	if e.accelerate && !full {','	if e.accelerate {'),
  'poll-compares-own-previous':(EP,'		modified := !snapshot.Equal(baseline)','		modified := !snapshot.Equal(previous)\n		_ = baseline'),
 },
}
prop,name=sys.argv[1],sys.argv[2]
f,a,b=M[prop][name]
src=open(ROOT+f).read()
assert src.count(a)>=1,(name,'pattern not found')
open(ROOT+f,'w').write(src.replace(a,b,1))
try:
    r=subprocess.run(['./check',prop],env=dict(os.environ,VERIF_REPO='/tmp/mut-all'),capture_output=True,text=True)
    out=(r.stdout+r.stderr).strip().split('\n')
    v=[l for l in out if 'VIOLATION' in l or ' quick:' in l]
    print(prop,name,'->','CAUGHT' if r.returncode!=0 else 'MISSED','|',' ; '.join(v)[:400])
finally:
    open(ROOT+f,'w').write(src)
