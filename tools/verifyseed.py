#!/usr/bin/env python3
"""Confirm a seeded change and run our check against it.

  tools/verifyseed.py <prop> <srcdir> <i> <demo-pkg-dir> [--name NAME] [--skip-suite] [--props C01,C02]

<srcdir> holds patch<i>.diff and demo<i>_test.go (or demo<i>/main.go). Steps, all
in a scratch worktree of /repo under /tmp (removed at the end):
  1. demo passes on the unchanged tree;  2. patch applies and builds;
  3. demo fails with the patch;          4. the pinned test suite still passes with the patch
     (failing tests ∩ BASELINE.stable_pass = ∅);
  5. `VERIF_REPO=<scratch> ./check <prop>` (quick) — caught iff it prints VIOLATION.
Keeps the change as /verif/seeded/<name>/ (patch.diff, demo, meta.json).
"""
import argparse, glob, json, os, re, shutil, subprocess, sys, time

ROOT = os.path.abspath(os.path.join(os.path.dirname(__file__), ".."))
ENV = dict(os.environ, GOFLAGS="-mod=mod", GOPROXY="off")


def run(cmd, cwd=None, env=None, timeout=3600):
    p = subprocess.run(cmd, cwd=cwd, env=env or ENV, stdout=subprocess.PIPE, stderr=subprocess.STDOUT, text=True, timeout=timeout)
    return p.returncode, p.stdout


def main():
    ap = argparse.ArgumentParser()
    ap.add_argument("prop"); ap.add_argument("srcdir"); ap.add_argument("i"); ap.add_argument("demopkg")
    ap.add_argument("--name"); ap.add_argument("--skip-suite", action="store_true"); ap.add_argument("--props")
    ap.add_argument("--tier", default="quick"); ap.add_argument("--tags", default="")
    a = ap.parse_args()
    a.srcdir = os.path.abspath(a.srcdir)
    name = a.name or "%s-%s" % (a.prop, a.i)
    d = "/tmp/vs-" + name
    subprocess.call([os.path.join(ROOT, "tools", "rmmutant.sh"), d])
    subprocess.check_call([os.path.join(ROOT, "tools", "mkmutant.sh"), d], stdout=subprocess.DEVNULL)
    meta = {"id": name, "breaks_property": a.prop, "source": "independent sub-agent (given only the property text and a scratch worktree)", "ran": []}
    try:
        patch = os.path.join(a.srcdir, "patch%s.diff" % a.i)
        demo_test = os.path.join(a.srcdir, "demo%s_test.go" % a.i)
        demo_main = os.path.join(a.srcdir, "demo%s" % a.i, "main.go")
        if os.path.exists(demo_test):
            dst = os.path.join(d, a.demopkg, "zz_seed_demo_test.go")
            shutil.copyfile(demo_test, dst)
            tests = re.findall(r"^func (Test\w+)\(", open(demo_test).read(), flags=re.M)
            demo_cmd = ["go", "test"] + (["-tags", a.tags] if a.tags else []) + ["-vet=off", "-count=1", "-run", "^(" + "|".join(tests) + ")$", "./" + a.demopkg]
            demo_files = [dst]
        else:
            os.makedirs(os.path.join(d, "zz_seed_demo"), exist_ok=True)
            dst = os.path.join(d, "zz_seed_demo", "main.go")
            shutil.copyfile(demo_main, dst)
            demo_cmd = ["go", "run", "./zz_seed_demo"]
            demo_files = [dst]
        rc0, out0 = run(demo_cmd, cwd=d)
        meta["ran"].append({"cmd": " ".join(demo_cmd), "tree": "unchanged", "rc": rc0})
        print("demo on unchanged tree: rc=%d" % rc0)
        if rc0 != 0:
            print(out0[-3000:])
        rc, out = run(["git", "apply", patch], cwd=d)
        if rc != 0:
            print("patch does not apply:\n" + out); meta["rejected"] = "patch does not apply"; return finish(meta, a, d, None, keep=False)
        rc, out = run(["go", "build", "./..."], cwd=d)
        if rc != 0:
            print("does not build:\n" + out[-2000:]); meta["rejected"] = "does not build"; return finish(meta, a, d, None, keep=False)
        rc1, out1 = run(demo_cmd, cwd=d)
        meta["ran"].append({"cmd": " ".join(demo_cmd), "tree": "patched", "rc": rc1})
        print("demo on patched tree: rc=%d" % rc1)
        meta["demo_passes_unchanged"] = rc0 == 0
        meta["demo_fails_patched"] = rc1 != 0
        for f in demo_files:
            os.remove(f)
        shutil.rmtree(os.path.join(d, "zz_seed_demo"), ignore_errors=True)
        if not a.skip_suite:
            t0 = time.time()
            rc, out = run(["go", "test", "-mod=mod", "-json", "-vet=off", "-count=1", "-timeout", "25m", "./..."], cwd=d, timeout=3600)
            stable = set(json.load(open("/root/.vp/BASELINE.json"))["stable_pass"])
            failed = set()
            for l in out.split("\n"):
                try:
                    e = json.loads(l)
                except Exception:
                    continue
                if e.get("Action") == "fail" and e.get("Test"):
                    failed.add("%s::%s" % (e["Package"], e["Test"]))
            bad = sorted(failed & stable)
            meta["suite"] = {"cmd": "go test -mod=mod -json -vet=off -count=1 -timeout 25m ./...", "stable_tests_failing": bad, "wall_s": round(time.time() - t0)}
            print("suite with patch: %d stable tests failing %s" % (len(bad), bad[:5]))
        props = (a.props.split(",") if a.props else [a.prop])
        caught = {}
        for p in props:
            env = dict(os.environ, VERIF_REPO=d, VERIF_TIER=a.tier)
            rc, out = run([os.path.join(ROOT, "check"), p, "--tier", a.tier], cwd=ROOT, env=env, timeout=7200)
            v = [l for l in out.split("\n") if l.startswith("VIOLATION")]
            caught[p] = {"rc": rc, "violation_lines": v, "tail": out[-600:]}
            print("check %s on patched tree: rc=%d %s" % (p, rc, v[:1]))
        meta["checks"] = caught
        meta["caught_by"] = [p for p, c in caught.items() if c["violation_lines"]]
        keep = meta["demo_passes_unchanged"] and meta["demo_fails_patched"] and not meta.get("suite", {}).get("stable_tests_failing")
        return finish(meta, a, d, patch, keep=keep)
    finally:
        subprocess.call([os.path.join(ROOT, "tools", "rmmutant.sh"), d])
        # restore evidence for the property from the real tree is the caller's job (re-run ./check)


def finish(meta, a, d, patch, keep):
    print(json.dumps({k: meta[k] for k in meta if k in ("demo_passes_unchanged", "demo_fails_patched", "caught_by", "rejected")}))
    if keep:
        out = os.path.join(ROOT, "seeded", meta["id"])
        os.makedirs(out, exist_ok=True)
        shutil.copyfile(patch, os.path.join(out, "patch.diff"))
        for f in glob.glob(os.path.join(a.srcdir, "demo%s*" % a.i)):
            if os.path.isdir(f):
                shutil.copytree(f, os.path.join(out, os.path.basename(f)), dirs_exist_ok=True)
            else:
                shutil.copyfile(f, os.path.join(out, os.path.basename(f)))
        readme = os.path.join(a.srcdir, "README.md")
        if os.path.exists(readme):
            shutil.copyfile(readme, os.path.join(out, "README.md"))
        meta["demo_package_dir"] = a.demopkg
        with open(os.path.join(out, "meta.json"), "w") as f:
            json.dump(meta, f, indent=1)
        print("kept as", out)
    else:
        print("NOT kept (not confirmed)")
    return 0


if __name__ == "__main__":
    sys.exit(main())
