#!/bin/sh
# tools/seedbatch.sh [--suite] prop...: verify the seeds of the given properties (from seeded/seeds.tsv, sources in out/seeds/<prop>)
cd "$(dirname "$0")/.."
suite="--skip-suite"; [ "$1" = "--suite" ] && { suite=""; shift; }
for p in "$@"; do
  grep "^$p	" seeded/seeds.tsv | while IFS='	' read prop i pkg tags; do
    echo "=== $prop-$i"
    python3 tools/verifyseed.py $prop seeded/_incoming/$prop $i $pkg $suite ${tags:+--tags $tags} 2>&1 | grep -E "^(demo|check|suite|\{|kept|NOT|patch does|does not)" 
  done
done
