#!/bin/sh
d="$1"; [ -n "$d" ] || exit 2
git -C /repo worktree remove --force "$d" 2>/dev/null || rm -rf "$d"
git -C /repo worktree prune
tag=$(printf %s "$(cd / && python3 -c "import os,sys;print(os.path.abspath(sys.argv[1]))" "$d")" | sha1sum | cut -c1-8)
rm -f "$(dirname "$0")/../harness/go.alt-$tag.mod" "$(dirname "$0")/../harness/go.alt-$tag.sum"
