#!/usr/bin/env python3
"""tools/seedsuite.py [ids...]: for each kept seeded change, confirm that the pinned test suite still passes with the patch
applied (failing tests ∩ BASELINE.stable_pass = ∅) in a scratch worktree with a private MUTAGEN_DATA_DIRECTORY; records the
result in seeded/<id>/meta.json. Runs up to PAR at a time."""
import concurrent.futures, glob, json, os, shutil, subprocess, sys, tempfile, time
ROOT = os.path.abspath(os.path.join(os.path.dirname(__file__), ".."))
stable = set(json.load(open("/root/.vp/BASELINE.json"))["stable_pass"])

def one(sid):
    d = os.path.join(ROOT, "seeded", sid)
    meta = json.load(open(os.path.join(d, "meta.json")))
    if meta.get("suite", {}).get("stable_tests_failing") == [] and meta["suite"].get("patch_sha") == sha(os.path.join(d, "patch.diff")):
        return sid, "already confirmed"
    wt = "/tmp/ss-" + sid
    subprocess.call([os.path.join(ROOT, "tools", "rmmutant.sh"), wt], stdout=subprocess.DEVNULL, stderr=subprocess.DEVNULL)
    subprocess.check_call([os.path.join(ROOT, "tools", "mkmutant.sh"), wt], stdout=subprocess.DEVNULL)
    data = tempfile.mkdtemp(prefix="ssdata-")
    try:
        if subprocess.call(["git", "apply", os.path.join(d, "patch.diff")], cwd=wt) != 0:
            return sid, "patch does not apply"
        env = dict(os.environ, GOFLAGS="-mod=mod", GOPROXY="off", MUTAGEN_DATA_DIRECTORY=data)
        t0 = time.time()
        p = subprocess.run(["go", "test", "-mod=mod", "-json", "-vet=off", "-count=1", "-timeout", "25m", "./..."], cwd=wt, env=env, stdout=subprocess.PIPE, stderr=subprocess.STDOUT, text=True)
        status = {}
        for l in p.stdout.split("\n"):
            try: e = json.loads(l)
            except Exception: continue
            if e.get("Test") and e.get("Action") in ("pass", "fail"):
                status["%s::%s" % (e["Package"], e["Test"])] = e["Action"]
        bad = sorted(t for t in stable if status.get(t) == "fail")
        seen = sum(1 for t in stable if t in status)
        meta["suite"] = {"cmd": "go test -mod=mod -json -vet=off -count=1 -timeout 25m ./... (scratch worktree, patch applied, private MUTAGEN_DATA_DIRECTORY)",
                         "stable_tests_seen": seen, "stable_tests_failing": bad, "wall_s": round(time.time() - t0), "patch_sha": sha(os.path.join(d, "patch.diff"))}
        json.dump(meta, open(os.path.join(d, "meta.json"), "w"), indent=1)
        return sid, "seen %d failing %s" % (seen, bad[:3])
    finally:
        subprocess.call([os.path.join(ROOT, "tools", "rmmutant.sh"), wt], stdout=subprocess.DEVNULL, stderr=subprocess.DEVNULL)
        shutil.rmtree(data, ignore_errors=True)

def sha(path):
    import hashlib
    return hashlib.sha1(open(path, "rb").read()).hexdigest()[:12]

ids = sys.argv[1:] or sorted(os.path.basename(os.path.dirname(m)) for m in glob.glob(os.path.join(ROOT, "seeded", "C*", "meta.json")))
with concurrent.futures.ThreadPoolExecutor(int(os.environ.get("PAR", "3"))) as ex:
    for sid, res in ex.map(one, ids):
        print(sid, res, flush=True)
