#!/bin/sh
# tools/runall.sh [tier] [props...]: run the registered checks in parallel, print one summary line each.
cd "$(dirname "$0")/.."
tier=${1:-quick}; shift 2>/dev/null
props="$@"
[ -n "$props" ] || props=$(ls checks | grep '^C[0-9]*\.json$' | sed 's/\.json//')
mkdir -p out/runall
echo $props | tr ' ' '\n' | xargs -P ${PAR:-6} -I{} sh -c "./check {} --tier $tier > out/runall/{}.txt 2>&1; echo \"{} rc=\$? \$(grep -E '^(VIOLATION|KNOWN-FINDING)' out/runall/{}.txt | head -2 | tr '\n' ' ') | \$(grep -E '^{} ' out/runall/{}.txt | tail -1)\""
