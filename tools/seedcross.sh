#!/bin/sh
# tools/seedcross.sh "<prop> <i> <props,comma>" ... : run a kept/incoming seed against other properties' checks
cd "$(dirname "$0")/.."
for spec in "$@"; do
  set -- $spec
  prop=$1; i=$2; props=$3
  line=$(grep "^$prop	$i	" seeded/seeds.tsv | head -1)
  pkg=$(echo "$line" | cut -f3); tags=$(echo "$line" | cut -f4)
  echo "=== $prop-$i vs $props"
  python3 tools/verifyseed.py $prop seeded/_incoming/$prop $i $pkg --skip-suite --props $props --name $prop-$i-x ${tags:+--tags $tags} 2>&1 | grep -E "^(check|\{)"
  rm -rf seeded/$prop-$i-x
done
