#!/bin/sh
# tools/sweep.sh <tier> <seed>...: run every check's drivers (no rebuild, no evidence) for the given seeds; print only failures.
cd "$(dirname "$0")/.."
tier=$1; shift
for s in "$@"; do
  ls checks | grep '^C[0-9]*\.json$' | sed 's/\.json//' | xargs -P ${PAR:-8} -I{} sh -c "VERIF_SWEEP=1 VERIF_SEED=$s ./check {} --tier $tier > out/runall/sweep-{}-$s.txt 2>&1 || echo \"seed $s {} FAILED: \$(grep -E '^(VIOLATION|C[0-9]+ )' out/runall/sweep-{}-$s.txt | tr '\n' ' ' | cut -c1-300)\""
  echo "seed $s done"
done
