#!/usr/bin/env python3
"""Print the prompt for an independent mutation-seeding agent for one property and create its scratch worktree."""
import json, os, subprocess, sys
pid = sys.argv[1]
ONE = len(sys.argv) > 2  # tools/seedprompt.py Cxx <i>: ask for one change only, files patch<i>.diff / demo<i>_test.go
IDX = sys.argv[2] if ONE else None
root = os.path.join(os.path.dirname(os.path.abspath(__file__)), "..")
p = next(json.loads(l) for l in open(os.path.join(root, "properties.jsonl")) if json.loads(l)["id"] == pid)
wt = "/tmp/seed-%s" % pid
if not os.path.exists(wt):
    subprocess.check_call(["git", "-C", "/repo", "worktree", "add", "--detach", "-q", wt, "HEAD"])
os.makedirs("/tmp/seed-%s-out" % pid, exist_ok=True)
text = (f"""You are given a scratch git worktree of the Go project mutagen (a file-synchronization and network-forwarding tool) at {wt}. Do all your work there and in {wt}-out; do not read or touch /repo or /verif (they are off limits), and do not use the network (there is none; for Go commands export GOFLAGS=-mod=mod GOPROXY=off).

A semantic property that must hold of this code base:

  Title: {p['title']}
  Statement: {p['statement']}
  Quantified over: {p['quantifier']['text']}
  Code it is anchored in: {', '.join(p['anchors']['files'])}

Your task: produce TWO independent, realistic changes to the (non-test) source code, each of which BREAKS this property while the code still compiles and the existing test suite still passes. Each should be the kind of bug a competent developer could plausibly introduce in a refactor, an optimisation or a 'simplification' (a dropped or weakened guard, a wrong comparison, an off-by-one, state updated in the wrong order, an error swallowed, a lock released too early, a cache key missing a field, two sites that each look fine alone…), in different functions/mechanisms from each other. Each must need something specific to manifest — a particular interleaving, a crash or fault at a particular point, a multi-step sequence of operations, an unusual input, or two cooperating sites — NOT something ordinary use or the existing tests would expose at once. Do not touch test files, build tags, or files whose name starts with verif_.

For each change i ∈ {{1,2}} deliver in {wt}-out/:
  * patch{'{i}'}.diff — `git diff` of the source change only (apply-able with `git apply` on a fresh checkout of the same commit);
  * demo{'{i}'}_test.go (a Go test file, say which package directory it must be copied into) or demo{'{i}'}/main.go — a demonstration that FAILS with the change and PASSES without it;
  * a section in README.md: what the change is, why it breaks the property, what it needs in order to manifest, the exact commands to run the demonstration with and without the patch, and what you observed both ways; and the command(s) you used to confirm the existing tests still pass with the patch (run at least the tests of every package you touched and of the packages that import it: `go test -vet=off -count=1 ./pkg/...` is the full suite and takes a few minutes — run it once per patch; in this sandbox a few tests fail even on the unchanged tree because tests run as root and no agent bundle is built — pkg/agent TestExecutableForPlatform*, pkg/synchronization/core TestScan/TestTransition permission cases — and pkg/integration can fail spuriously with 'unable to acquire daemon lock' when several suites run at once: what matters is that no test changes status relative to the unchanged tree).
Verify everything yourself before reporting: patch applies on a clean checkout (save your work with `git diff > file`, then `git checkout -- .` and `git apply file` — NEVER use `git stash`: the stash is shared with other people's worktrees of this repository), builds (`go build ./...`), demo fails with it and passes without it, existing tests pass with it. Leave the worktree clean (no patch applied, no demo files) when you finish. Your final message: a short summary of the two changes and the verification results.""")
if ONE:
    text = text.replace("produce TWO independent, realistic changes to the (non-test) source code, each of which BREAKS", "produce ONE realistic change to the (non-test) source code which BREAKS")
    text = text.replace("Each should be", "It should be").replace(", in different functions/mechanisms from each other. Each must need", ". It must need")
    text = text.replace("For each change i \u2208 {1,2} deliver", "Deliver (with i = %s)" % IDX).replace("the two changes", "the change")
    text = text.replace("run it once per patch", "run it once")
    text = text.replace("{i}", IDX).replace("(with i = %s) " % IDX, "")
    text += "\nTime budget: aim to finish within about 20 minutes of work."
print(text)
