#!/bin/sh
# tools/mkmutant.sh <dir>: scratch copy of /repo (git worktree at HEAD + the
# untracked verif_*.go hook files) for mutation testing with
#   VERIF_REPO=<dir> ./check Cxx
# Remove it with tools/rmmutant.sh <dir> as soon as you are done.
set -e
d="$1"; [ -n "$d" ] || { echo "usage: mkmutant.sh <dir>"; exit 2; }
git -C /repo worktree add --detach -q "$d" HEAD
(cd /repo && git ls-files --others --exclude-standard | grep 'verif_' | while read f; do mkdir -p "$d/$(dirname "$f")"; cp "$f" "$d/$f"; done) || true
(cd /repo && git diff HEAD) | (cd "$d" && git apply --allow-empty 2>/dev/null || true)
echo "$d"
