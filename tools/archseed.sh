#!/bin/sh
# tools/archseed.sh Cxx...: archive a finished seeder's output (/tmp/seed-Cxx-out) into seeded/_incoming/Cxx and remove its scratch worktree.
cd "$(dirname "$0")/.."
for p in "$@"; do
  o=/tmp/seed-$p-out
  [ -f $o/README.md ] || { echo "$p: no README yet"; continue; }
  mkdir -p seeded/_incoming/$p
  cp $o/patch*.diff $o/demo*_test.go $o/README.md seeded/_incoming/$p/ 2>/dev/null
  for d in $o/demo1 $o/demo2; do [ -d $d ] && cp -r $d seeded/_incoming/$p/; done
  git -C /repo worktree remove --force /tmp/seed-$p 2>/dev/null
  rm -rf $o
  echo "$p archived"
done
git -C /repo worktree prune
