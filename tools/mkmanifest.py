#!/usr/bin/env python3
"""Generate MANIFEST.json from checks/Cxx.json (claimed) and checks/not_applicable.json."""
import json, os, glob
root = os.path.join(os.path.dirname(os.path.abspath(__file__)), "..")
checks = []
pending_path = os.path.join(root, "checks", "pending.json")
pending = json.load(open(pending_path)) if os.path.exists(pending_path) else {}
for path in sorted(glob.glob(os.path.join(root, "checks", "C*.json"))):
    pid = os.path.basename(path)[:-5]
    m = json.load(open(path))
    if m.get("disabled") or pid in pending:
        continue
    checks.append({
        "property_id": pid,
        "quick_cmd": "./check %s --tier quick" % pid,
        "thorough_cmd": "./check %s --tier thorough" % pid,
        "evidence_file": "/verif/evidence/%s.json" % pid,
        "replay_cmd_template": "./check %s --replay {path}" % pid,
        "engine": "lean4-proof+correspondence",
        "level_claimed": {"category": "proof", "text": m["level_text"], "design_ref": m.get("design_ref", "DESIGN.md §8 " + pid)},
        "level_note": m["level_note"],
        "technique": m["technique"],
    })
na_path = os.path.join(root, "checks", "not_applicable.json")
na = json.load(open(na_path)) if os.path.exists(na_path) else []
claimed = {c["property_id"] for c in checks}
props = [json.loads(l)["id"] for l in open(os.path.join(root, "properties.jsonl"))]
na = [n for n in na if n["property_id"] not in claimed]
listed = {n["property_id"] for n in na}
for p in props:
    if p not in claimed and p not in listed and p in pending:
        na.append({"property_id": p, "reason": pending[p]})
        listed.add(p)
for p in props:
    if p not in claimed and p not in listed:
        na.append({"property_id": p, "reason": "check not built yet in this round (planned in DESIGN.md §8); no claim is made"})
hooks_path = os.path.join(root, "checks", "hooks.json")
hooks = json.load(open(hooks_path)) if os.path.exists(hooks_path) else {"source_commits": []}
manifest = {
    "version": 1,
    "setup_cmd": "./setup.sh",
    "hooks": {
        "guard": "verif",
        "enable": "go build -tags verif (the harness module replaces github.com/mutagen-io/mutagen with /repo)",
        "baseline_off_cmd": "cd /repo && go test -mod=mod -json -vet=off -count=1 -timeout 25m ./...",
        "source_commits": hooks.get("source_commits", []),
        "add_only": True,
    },
    "engines": [{
        "name": "lean4-proof+correspondence",
        "path": "/verif/check",
        "serves_properties": sorted(claimed),
        "kind_free_text": "Lean 4 theorems over hand-written executable models (lean/Mutagen), tied to /repo on every run by a regenerated facts file and a differential correspondence check (harness/cmd/cNN drives the real Go code, modeld runs the model on the same lines)",
    }],
    "checks": checks,
    "not_applicable": sorted(na, key=lambda n: n["property_id"]),
    "notes": "See DESIGN.md. Known findings and fixed defects: known_findings.json.",
}
with open(os.path.join(root, "MANIFEST.json"), "w") as f:
    json.dump(manifest, f, indent=1)
print("claimed", len(checks), "not_applicable", len(na))
