#!/usr/bin/env python3
"""tools/baseline_check.py [pkg patterns...]: run go test (guard off) in /repo and report stable-baseline tests that fail."""
import json, subprocess, sys, os
pk = sys.argv[1:] or ["./..."]
env = dict(os.environ, GOFLAGS="-mod=mod", GOPROXY="off")
p = subprocess.run(["go", "test", "-mod=mod", "-json", "-vet=off", "-count=1", "-timeout", "25m"] + pk, cwd=os.environ.get("VERIF_REPO", "/repo"), env=env, stdout=subprocess.PIPE, stderr=subprocess.STDOUT, text=True)
stable = set(json.load(open("/root/.vp/BASELINE.json"))["stable_pass"])
status = {}
for l in p.stdout.split("\n"):
    try: e = json.loads(l)
    except Exception: continue
    if e.get("Test") and e.get("Action") in ("pass", "fail", "skip"):
        status["%s::%s" % (e["Package"], e["Test"])] = e["Action"]
bad = sorted(t for t in stable if status.get(t) == "fail")
ran = sum(1 for t in stable if t in status)
print("stable tests seen: %d, passing: %d, failing: %d" % (ran, sum(1 for t in stable if status.get(t) == "pass"), len(bad)))
for t in bad: print("FAIL", t)
sys.exit(1 if bad else 0)
